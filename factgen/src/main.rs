//! factgen — a `rustc_private` driver that dumps, for every body of the crate
//! being compiled, the *built* MIR (pre-borrowck, pre-coroutine-transform) with
//! resolved callees and named field projections, plus the crate's type tables,
//! as JSON lines. It is injected with RUSTC_WORKSPACE_WRAPPER; it never changes
//! what rustc does with the crate (Compilation::Continue).
//!
//! Output: $FACTGEN_OUT/<crate>-<pid>.jsonl (one write per process).
#![feature(rustc_private)]
#![allow(clippy::all)]

extern crate rustc_abi;
extern crate rustc_driver;
extern crate rustc_hir;
extern crate rustc_interface;
extern crate rustc_middle;
extern crate rustc_span;

use std::fmt::Write as _;

use rustc_hir::def::DefKind;
use rustc_hir::def_id::{DefId, LocalDefId};
use rustc_middle::mir::{
    self, AggregateKind, BasicBlock, Body, BorrowKind, Const, ConstValue, Operand, Place,
    PlaceElem, Rvalue, StatementKind, TerminatorKind,
};
use rustc_middle::ty::print::{
    with_no_trimmed_paths as wntp, with_no_visible_paths, with_resolve_crate_name,
};
use rustc_middle::ty::{self, Ty, TyCtxt};

/// Print with real (not re-exported, not trimmed) paths, always crate-prefixed.
macro_rules! with_no_trimmed_paths {
    ($e:expr) => {
        with_resolve_crate_name!(with_no_visible_paths!(wntp!($e)))
    };
}
use rustc_span::Span;

// ---------------------------------------------------------------- JSON ----

enum J {
    Null,
    B(bool),
    N(i128),
    S(String),
    A(Vec<J>),
    O(Vec<(&'static str, J)>),
}

fn esc(s: &str, out: &mut String) {
    out.push('"');
    for c in s.chars() {
        match c {
            '"' => out.push_str("\\\""),
            '\\' => out.push_str("\\\\"),
            '\n' => out.push_str("\\n"),
            '\r' => out.push_str("\\r"),
            '\t' => out.push_str("\\t"),
            c if (c as u32) < 0x20 => {
                let _ = write!(out, "\\u{:04x}", c as u32);
            }
            c => out.push(c),
        }
    }
    out.push('"');
}

impl J {
    fn s(x: impl Into<String>) -> J {
        J::S(x.into())
    }
    fn write(&self, out: &mut String) {
        match self {
            J::Null => out.push_str("null"),
            J::B(b) => out.push_str(if *b { "true" } else { "false" }),
            J::N(n) => {
                let _ = write!(out, "{}", n);
            }
            J::S(s) => esc(s, out),
            J::A(v) => {
                out.push('[');
                for (i, x) in v.iter().enumerate() {
                    if i > 0 {
                        out.push(',');
                    }
                    x.write(out);
                }
                out.push(']');
            }
            J::O(v) => {
                out.push('{');
                let mut first = true;
                for (k, x) in v.iter() {
                    if matches!(x, J::Null) {
                        continue;
                    }
                    if !first {
                        out.push(',');
                    }
                    first = false;
                    esc(k, out);
                    out.push(':');
                    x.write(out);
                }
                out.push('}');
            }
        }
    }
}

// ------------------------------------------------------------- helpers ----

struct Cx<'tcx> {
    tcx: TyCtxt<'tcx>,
    krate: String,
}

impl<'tcx> Cx<'tcx> {
    fn path(&self, did: DefId) -> String {
        with_no_trimmed_paths!(self.tcx.def_path_str(did))
    }

    fn path_args(&self, did: DefId, args: ty::GenericArgsRef<'tcx>) -> String {
        with_no_trimmed_paths!(self.tcx.def_path_str_with_args(did, args))
    }

    fn ty_s(&self, t: Ty<'tcx>) -> String {
        with_no_trimmed_paths!(t.to_string())
    }

    fn line(&self, sp: Span) -> (String, usize) {
        let sp = sp.source_callsite();
        let sm = self.tcx.sess.source_map();
        let loc = sm.lookup_char_pos(sp.lo());
        let f = match &loc.file.name {
            rustc_span::FileName::Real(r) => r
                .local_path()
                .map(|p| p.display().to_string())
                .unwrap_or_else(|| format!("{:?}", loc.file.name)),
            other => format!("{:?}", other),
        };
        (f, loc.line)
    }

    /// innermost line (no callsite walk) — for macro-internal sites
    fn macro_name(&self, sp: Span) -> J {
        if !sp.from_expansion() {
            return J::Null;
        }
        // outermost macro of the expansion chain + innermost
        let mut names = vec![];
        let mut s = sp;
        let mut guard = 0;
        while s.from_expansion() && guard < 16 {
            let d = s.ctxt().outer_expn_data();
            let n = match d.kind {
                rustc_span::ExpnKind::Macro(_, sym) => sym.to_string(),
                rustc_span::ExpnKind::Desugaring(k) => format!("desugar:{:?}", k),
                rustc_span::ExpnKind::AstPass(_) => "astpass".to_string(),
                rustc_span::ExpnKind::Root => "root".to_string(),
            };
            names.push(n);
            s = d.call_site;
            guard += 1;
        }
        J::A(names.into_iter().map(J::S).collect())
    }

    fn place(&self, body: &Body<'tcx>, p: &Place<'tcx>) -> J {
        let mut v = vec![J::N(p.local.as_u32() as i128)];
        let mut pty = mir::PlaceTy::from_ty(body.local_decls[p.local].ty);
        for elem in p.projection.iter() {
            let e = match elem {
                PlaceElem::Deref => J::s("*"),
                PlaceElem::Field(f, _) => {
                    let name = match pty.ty.kind() {
                        ty::Adt(adt, _) => {
                            let vi = pty.variant_index.unwrap_or(rustc_abi::FIRST_VARIANT);
                            let var = &adt.variants()[vi];
                            let adt_name = self.path(adt.did());
                            if adt.is_enum() {
                                format!(
                                    ".{}::{}.{}",
                                    adt_name,
                                    var.name,
                                    var.fields[f].name
                                )
                            } else {
                                format!(".{}.{}", adt_name, var.fields[f].name)
                            }
                        }
                        ty::Tuple(_) => format!(".{}", f.as_u32()),
                        ty::Closure(did, _) | ty::Coroutine(did, _) | ty::CoroutineClosure(did, _) => {
                            // upvar index
                            let names = self.tcx.closure_saved_names_of_captured_variables(*did);
                            let n = names
                                .get(f)
                                .map(|s| s.to_string())
                                .unwrap_or_else(|| f.as_u32().to_string());
                            // upvar index first: rules identify a captured variable by position
                            // (operand i of the closure aggregate in the parent), the name is for display
                            format!(".^{}:{}", f.as_u32(), n)
                        }
                        _ => format!(".{}", f.as_u32()),
                    };
                    J::S(name)
                }
                PlaceElem::Index(l) => J::S(format!("[_{}]", l.as_u32())),
                PlaceElem::ConstantIndex { offset, from_end, .. } => {
                    J::S(format!("[{}{}]", if from_end { "-" } else { "" }, offset))
                }
                PlaceElem::Subslice { from, to, from_end } => {
                    J::S(format!("[{}..{}{}]", from, if from_end { "-" } else { "" }, to))
                }
                PlaceElem::Downcast(sym, vi) => J::S(format!(
                    "@{}",
                    sym.map(|s| s.to_string()).unwrap_or_else(|| vi.as_u32().to_string())
                )),
                PlaceElem::OpaqueCast(_) => J::s("opaque"),
                PlaceElem::UnwrapUnsafeBinder(_) => J::s("unbinder"),
            };
            v.push(e);
            pty = pty.projection_ty(self.tcx, elem);
        }
        J::A(v)
    }

    fn place_ty(&self, body: &Body<'tcx>, p: &Place<'tcx>) -> Ty<'tcx> {
        p.ty(&body.local_decls, self.tcx).ty
    }

    fn konst(&self, def: LocalDefId, c: &mir::ConstOperand<'tcx>) -> J {
        let ty = c.const_.ty();
        let mut o: Vec<(&'static str, J)> = vec![("ty", J::S(self.ty_s(ty)))];
        match ty.kind() {
            ty::FnDef(did, args) => {
                o.push(("fn", J::S(self.path(*did))));
                o.push(("fnargs", J::S(self.path_args(*did, args))));
            }
            _ => {}
        }
        match c.const_ {
            Const::Unevaluated(uv, _) => {
                o.push(("def", J::S(self.path(uv.def))));
                if uv.promoted.is_some() {
                    o.push(("promoted", J::B(true)));
                }
            }
            Const::Ty(_, ct) => {
                o.push(("tyconst", J::S(with_no_trimmed_paths!(format!("{:?}", ct)))));
            }
            Const::Val(..) => {}
        }
        // value
        let env = ty::TypingEnv::post_analysis(self.tcx, def);
        if ty.is_integral() || ty.is_bool() || ty.is_char() {
            if let Some(si) = c.const_.try_eval_scalar_int(self.tcx, env) {
                let bits = si.to_bits_unchecked();
                let v: i128 = if ty.is_signed() {
                    let size = si.size();
                    size.sign_extend(bits) as i128
                } else {
                    bits as i128
                };
                o.push(("int", J::N(v)));
            }
        } else if let Const::Val(val, _) = c.const_ {
            match val {
                ConstValue::Slice { .. } => {
                    if let Some(bytes) = val.try_get_slice_bytes_for_diagnostics(self.tcx) {
                        o.push(("str", J::S(String::from_utf8_lossy(bytes).into_owned())));
                    }
                }
                ConstValue::Scalar(mir::interpret::Scalar::Ptr(ptr, _)) => {
                    // pointer constant: a static, or a byte-array literal `b"..."`
                    let (prov, off) = ptr.prov_and_relative_offset();
                    match self.tcx.global_alloc(prov.alloc_id()) {
                        mir::interpret::GlobalAlloc::Static(did) => {
                            o.push(("def", J::S(self.path(did))));
                            o.push(("static", J::B(true)));
                        }
                        mir::interpret::GlobalAlloc::Memory(a) => {
                            let inner = a.inner();
                            let is_bytes = match ty.kind() {
                                ty::Ref(_, t, _) => match t.kind() {
                                    ty::Array(e, _) | ty::Slice(e) => *e == self.tcx.types.u8,
                                    ty::Str => true,
                                    _ => false,
                                },
                                _ => false,
                            };
                            if is_bytes && inner.provenance().ptrs().is_empty() && off.bytes() == 0 {
                                let bytes = inner.inspect_with_uninit_and_ptr_outside_interpreter(
                                    0..inner.len(),
                                );
                                o.push(("str", J::S(String::from_utf8_lossy(bytes).into_owned())));
                            }
                        }
                        _ => {}
                    }
                }
                _ => {}
            }
        }
        J::O(o)
    }

    fn operand(&self, def: LocalDefId, body: &Body<'tcx>, op: &Operand<'tcx>) -> J {
        match op {
            Operand::Copy(p) => J::O(vec![("copy", self.place(body, p))]),
            Operand::Move(p) => J::O(vec![("move", self.place(body, p))]),
            Operand::Constant(c) => J::O(vec![("const", self.konst(def, c))]),
            #[allow(unreachable_patterns)]
            _ => J::O(vec![("other", J::S(format!("{:?}", op)))]),
        }
    }

    fn adt_variants(&self, t: Ty<'tcx>) -> J {
        match t.kind() {
            ty::Adt(adt, _) if adt.is_enum() => {
                let mut v = vec![];
                for (vi, d) in adt.discriminants(self.tcx) {
                    v.push(J::A(vec![
                        J::N(d.val as i128),
                        J::S(adt.variants()[vi].name.to_string()),
                    ]));
                }
                J::O(vec![("adt", J::S(self.path(adt.did()))), ("variants", J::A(v))])
            }
            _ => J::Null,
        }
    }

    fn rvalue(&self, def: LocalDefId, body: &Body<'tcx>, rv: &Rvalue<'tcx>) -> J {
        let op = |o: &Operand<'tcx>| self.operand(def, body, o);
        match rv {
            Rvalue::Use(o, ..) => J::O(vec![("k", J::s("use")), ("ops", J::A(vec![op(o)]))]),
            Rvalue::Repeat(o, _) => J::O(vec![("k", J::s("repeat")), ("ops", J::A(vec![op(o)]))]),
            Rvalue::Ref(_, bk, p) => J::O(vec![
                ("k", J::s("ref")),
                ("mut", J::B(matches!(bk, BorrowKind::Mut { .. }))),
                ("fake", if matches!(bk, BorrowKind::Fake(_)) { J::B(true) } else { J::Null }),
                ("p", self.place(body, p)),
            ]),
            Rvalue::RawPtr(k, p) => J::O(vec![
                ("k", J::s("rawptr")),
                ("mut", J::B(matches!(k, mir::RawPtrKind::Mut))),
                ("p", self.place(body, p)),
            ]),
            Rvalue::ThreadLocalRef(d) => {
                J::O(vec![("k", J::s("tlref")), ("def", J::S(self.path(*d)))])
            }
            Rvalue::Cast(ck, o, t) => {
                let from = match o {
                    Operand::Copy(p) | Operand::Move(p) => self.place_ty(body, p),
                    Operand::Constant(c) => c.const_.ty(),
                    #[allow(unreachable_patterns)]
                    _ => *t,
                };
                J::O(vec![
                    ("k", J::s("cast")),
                    ("ck", J::S(format!("{:?}", ck))),
                    ("from", J::S(self.ty_s(from))),
                    ("to", J::S(self.ty_s(*t))),
                    ("ops", J::A(vec![op(o)])),
                ])
            }
            Rvalue::BinaryOp(b, ab) => {
                let lt = match &ab.0 {
                    Operand::Copy(p) | Operand::Move(p) => self.place_ty(body, p),
                    Operand::Constant(c) => c.const_.ty(),
                    #[allow(unreachable_patterns)]
                    _ => self.tcx.types.unit,
                };
                J::O(vec![
                    ("k", J::s("bin")),
                    ("op", J::S(format!("{:?}", b))),
                    ("oty", J::S(self.ty_s(lt))),
                    ("ops", J::A(vec![op(&ab.0), op(&ab.1)])),
                ])
            }
            Rvalue::UnaryOp(u, o) => J::O(vec![
                ("k", J::s("un")),
                ("op", J::S(format!("{:?}", u))),
                ("ops", J::A(vec![op(o)])),
            ]),
            Rvalue::Discriminant(p) => {
                let t = self.place_ty(body, p);
                J::O(vec![
                    ("k", J::s("discr")),
                    ("p", self.place(body, p)),
                    ("enum", self.adt_variants(t)),
                ])
            }
            Rvalue::Aggregate(kind, ops) => {
                let mut o: Vec<(&'static str, J)> = vec![("k", J::s("agg"))];
                match &**kind {
                    AggregateKind::Array(_) => o.push(("ak", J::s("array"))),
                    AggregateKind::Tuple => o.push(("ak", J::s("tuple"))),
                    AggregateKind::Adt(did, vi, _, _, active) => {
                        let adt = self.tcx.adt_def(*did);
                        let var = &adt.variants()[*vi];
                        o.push(("ak", J::s("adt")));
                        o.push(("adt", J::S(self.path(*did))));
                        if adt.is_enum() {
                            o.push(("variant", J::S(var.name.to_string())));
                        }
                        let names: Vec<J> = if let Some(a) = active {
                            vec![J::S(var.fields[*a].name.to_string())]
                        } else {
                            var.fields.iter().map(|f| J::S(f.name.to_string())).collect()
                        };
                        o.push(("fields", J::A(names)));
                    }
                    AggregateKind::Closure(did, _) => {
                        o.push(("ak", J::s("closure")));
                        o.push(("def", J::S(self.path(*did))));
                    }
                    AggregateKind::Coroutine(did, _) => {
                        o.push(("ak", J::s("coroutine")));
                        o.push(("def", J::S(self.path(*did))));
                    }
                    AggregateKind::CoroutineClosure(did, _) => {
                        o.push(("ak", J::s("coroutine_closure")));
                        o.push(("def", J::S(self.path(*did))));
                    }
                    AggregateKind::RawPtr(..) => o.push(("ak", J::s("rawptr"))),
                }
                o.push(("ops", J::A(ops.iter().map(|x| op(x)).collect())));
                J::O(o)
            }
            Rvalue::CopyForDeref(p) => J::O(vec![
                ("k", J::s("use")),
                ("ops", J::A(vec![J::O(vec![("copy", self.place(body, p))])])),
            ]),
            Rvalue::WrapUnsafeBinder(o, _) => {
                J::O(vec![("k", J::s("use")), ("ops", J::A(vec![op(o)]))])
            }
        }
    }

    fn callee(
        &self,
        def: LocalDefId,
        body: &Body<'tcx>,
        func: &Operand<'tcx>,
    ) -> Vec<(&'static str, J)> {
        let mut o = vec![];
        let fty = match func {
            Operand::Constant(c) => c.const_.ty(),
            Operand::Copy(p) | Operand::Move(p) => self.place_ty(body, p),
            #[allow(unreachable_patterns)]
            _ => return o,
        };
        match fty.kind() {
            ty::FnDef(did, args) => {
                o.push(("decl", J::S(self.path(*did))));
                o.push(("declargs", J::S(self.path_args(*did, args))));
                if let Some(tr) = self.tcx.trait_of_assoc(*did) {
                    o.push(("trait", J::S(self.path(tr))));
                    if let Some(self_ty) = args.types().next() {
                        o.push(("selfty", J::S(self.ty_s(self_ty))));
                    }
                } else if let Some(imp) = self.tcx.impl_of_assoc(*did) {
                    let st = self.tcx.type_of(imp).instantiate(self.tcx, args).skip_norm_wip();
                    o.push(("selfty", J::S(self.ty_s(st))));
                }
                let env = ty::TypingEnv::post_analysis(self.tcx, def);
                let res = std::panic::catch_unwind(std::panic::AssertUnwindSafe(|| {
                    ty::Instance::try_resolve(self.tcx, env, *did, args)
                }));
                if let Ok(Ok(Some(inst))) = res {
                    let rd = inst.def_id();
                    o.push(("res", J::S(self.path(rd))));
                    if rd != *did {
                        o.push(("resargs", J::S(self.path_args(rd, inst.args))));
                    }
                    if let Some(imp) = self.tcx.impl_of_assoc(rd) {
                        let st = self
                            .tcx
                            .type_of(imp)
                            .instantiate(self.tcx, inst.args)
                            .skip_norm_wip();
                        o.push(("resself", J::S(self.ty_s(st))));
                    }
                    match inst.def {
                        ty::InstanceKind::Item(_) => {}
                        other => o.push((
                            "shim",
                            J::S(
                                format!("{:?}", other)
                                    .split('(')
                                    .next()
                                    .unwrap_or("")
                                    .to_string(),
                            ),
                        )),
                    }
                }
                // generic type args as strings
                let targs: Vec<J> = args.types().map(|t| J::S(self.ty_s(t))).collect();
                o.push(("targs", J::A(targs)));
            }
            ty::FnPtr(..) => {
                o.push(("ptr", self.operand(def, body, func)));
            }
            _ => {
                o.push(("dyn", J::S(self.ty_s(fty))));
                o.push(("ptr", self.operand(def, body, func)));
            }
        }
        o
    }

    fn body(&self, def: LocalDefId, body: &Body<'tcx>, out: &mut String) {
        let tcx = self.tcx;
        let did = def.to_def_id();
        let kind = tcx.def_kind(did);
        let (file, line_lo) = self.line(body.span);
        let sm = tcx.sess.source_map();
        let line_hi = sm.lookup_char_pos(body.span.source_callsite().hi()).line;

        let mut o: Vec<(&'static str, J)> = vec![
            ("k", J::s("body")),
            ("crate", J::S(self.krate.clone())),
            ("path", J::S(self.path(did))),
            ("dk", J::S(format!("{:?}", kind))),
            ("file", J::S(file)),
            ("lo", J::N(line_lo as i128)),
            ("hi", J::N(line_hi as i128)),
            ("expn", self.macro_name(body.span)),
        ];
        // parent (for closures) and impl info
        let mut owner = did;
        while matches!(tcx.def_kind(owner), DefKind::Closure | DefKind::InlineConst | DefKind::AnonConst) {
            owner = tcx.parent(owner);
        }
        if owner != did {
            o.push(("owner", J::S(self.path(owner))));
            o.push(("parent", J::S(self.path(tcx.parent(did)))));
        }
        if matches!(tcx.def_kind(owner), DefKind::AssocFn | DefKind::AssocConst { .. }) {
            let p = tcx.parent(owner);
            if let DefKind::Impl { of_trait } = tcx.def_kind(p) {
                let st = tcx.type_of(p).instantiate_identity().skip_norm_wip();
                o.push(("impl_self", J::S(self.ty_s(st))));
                if let ty::Adt(adt, _) = st.kind() {
                    o.push(("impl_adt", J::S(self.path(adt.did()))));
                }
                if of_trait {
                    let tr = tcx.impl_trait_ref(p).instantiate_identity().skip_norm_wip();
                    o.push(("impl_trait", J::S(self.path(tr.def_id))));
                    o.push(("impl_trait_full", J::S(with_no_trimmed_paths!(tr.to_string()))));
                }
            } else if let DefKind::Trait = tcx.def_kind(p) {
                o.push(("in_trait", J::S(self.path(p))));
            }
        }
        if kind == DefKind::Closure {
            let t = tcx.type_of(did).instantiate_identity().skip_norm_wip();
            let ck = match t.kind() {
                ty::Closure(..) => "closure",
                ty::Coroutine(..) => {
                    if tcx.coroutine_is_async(did) {
                        "async"
                    } else {
                        "coroutine"
                    }
                }
                ty::CoroutineClosure(..) => "coroutine_closure",
                _ => "?",
            };
            o.push(("ck", J::s(ck)));
            let names = tcx.closure_saved_names_of_captured_variables(did);
            o.push(("upvars", J::A(names.iter().map(|s| J::S(s.to_string())).collect())));
        }
        if matches!(kind, DefKind::Fn | DefKind::AssocFn) {
            o.push(("vis", J::S(format!("{:?}", tcx.visibility(did)))));
            o.push(("is_async", J::B(tcx.asyncness(did).is_async())));
        }
        o.push(("argc", J::N(body.arg_count as i128)));

        // locals
        let mut names: Vec<Option<String>> = vec![None; body.local_decls.len()];
        let mut upvar_alias: Vec<J> = vec![];
        for vdi in body.var_debug_info.iter() {
            if let mir::VarDebugInfoContents::Place(p) = &vdi.value {
                if p.projection.is_empty() {
                    names[p.local.as_usize()] = Some(vdi.name.to_string());
                } else {
                    upvar_alias.push(J::A(vec![J::S(vdi.name.to_string()), self.place(body, p)]));
                }
            }
        }
        let mut locals = vec![];
        for (l, d) in body.local_decls.iter_enumerated() {
            let k = if l.as_usize() == 0 {
                "ret"
            } else if l.as_usize() <= body.arg_count {
                "arg"
            } else if d.is_user_variable() {
                "var"
            } else {
                "tmp"
            };
            locals.push(J::O(vec![
                ("ty", J::S(self.ty_s(d.ty))),
                ("n", names[l.as_usize()].clone().map(J::S).unwrap_or(J::Null)),
                ("k", J::s(k)),
            ]));
        }
        o.push(("locals", J::A(locals)));
        if !upvar_alias.is_empty() {
            o.push(("dbg", J::A(upvar_alias)));
        }

        // blocks
        let real = |mut bb: BasicBlock| -> BasicBlock {
            // collapse FalseEdge / FalseUnwind chains
            let mut n = 0;
            loop {
                match &body.basic_blocks[bb].terminator().kind {
                    TerminatorKind::FalseEdge { real_target, .. }
                    | TerminatorKind::FalseUnwind { real_target, .. }
                        if body.basic_blocks[bb].statements.iter().all(|s| {
                            matches!(
                                s.kind,
                                StatementKind::Nop
                                    | StatementKind::StorageLive(_)
                                    | StatementKind::StorageDead(_)
                                    | StatementKind::FakeRead(..)
                                    | StatementKind::PlaceMention(..)
                                    | StatementKind::AscribeUserType(..)
                                    | StatementKind::Coverage(..)
                                    | StatementKind::BackwardIncompatibleDropHint { .. }
                                    | StatementKind::ConstEvalCounter
                            )
                        }) && n < 64 =>
                    {
                        bb = *real_target;
                        n += 1;
                    }
                    _ => return bb,
                }
            }
        };
        let bbn = |bb: BasicBlock| J::N(real(bb).as_u32() as i128);

        let mut blocks = vec![];
        for (_bb, data) in body.basic_blocks.iter_enumerated() {
            let mut stmts = vec![];
            for st in data.statements.iter() {
                let (_, ln) = self.line(st.source_info.span);
                match &st.kind {
                    StatementKind::Assign(b) => {
                        let (p, rv) = &**b;
                        stmts.push(J::O(vec![
                            ("k", J::s("=")),
                            ("p", self.place(body, p)),
                            ("rv", self.rvalue(def, body, rv)),
                            ("ln", J::N(ln as i128)),
                            ("mac", self.macro_name(st.source_info.span)),
                        ]));
                    }
                    StatementKind::SetDiscriminant { place, variant_index } => {
                        stmts.push(J::O(vec![
                            ("k", J::s("setdiscr")),
                            ("p", self.place(body, place)),
                            ("v", J::N(variant_index.as_u32() as i128)),
                            ("ln", J::N(ln as i128)),
                        ]));
                    }
                    StatementKind::Intrinsic(i) => {
                        stmts.push(J::O(vec![
                            ("k", J::s("intrinsic")),
                            ("s", J::S(format!("{:?}", i))),
                            ("ln", J::N(ln as i128)),
                        ]));
                    }
                    _ => {}
                }
            }
            let term = data.terminator();
            let (_, tln) = self.line(term.source_info.span);
            let mut t: Vec<(&'static str, J)> = vec![];
            match &term.kind {
                TerminatorKind::Goto { target } => {
                    t.push(("k", J::s("goto")));
                    t.push(("t", bbn(*target)));
                }
                TerminatorKind::FalseEdge { real_target, .. }
                | TerminatorKind::FalseUnwind { real_target, .. } => {
                    t.push(("k", J::s("goto")));
                    t.push(("t", bbn(*real_target)));
                }
                TerminatorKind::SwitchInt { discr, targets } => {
                    t.push(("k", J::s("switch")));
                    t.push(("d", self.operand(def, body, discr)));
                    let dty = match discr {
                        Operand::Copy(p) | Operand::Move(p) => self.place_ty(body, p),
                        Operand::Constant(c) => c.const_.ty(),
                        #[allow(unreachable_patterns)]
                        _ => tcx.types.unit,
                    };
                    t.push(("dty", J::S(self.ty_s(dty))));
                    let mut v = vec![];
                    for (val, bb) in targets.iter() {
                        v.push(J::A(vec![J::N(val as i128), bbn(bb)]));
                    }
                    t.push(("ts", J::A(v)));
                    t.push(("o", bbn(targets.otherwise())));
                }
                TerminatorKind::Return => t.push(("k", J::s("ret"))),
                TerminatorKind::Unreachable => t.push(("k", J::s("unreachable"))),
                TerminatorKind::UnwindResume
                | TerminatorKind::UnwindTerminate(_)
                | TerminatorKind::CoroutineDrop => t.push(("k", J::s("unwind"))),
                TerminatorKind::Drop { place, target, .. } => {
                    t.push(("k", J::s("drop")));
                    t.push(("p", self.place(body, place)));
                    t.push(("t", bbn(*target)));
                }
                TerminatorKind::Call { func, args, destination, target, fn_span, .. } => {
                    t.push(("k", J::s("call")));
                    t.push(("fn", J::O(self.callee(def, body, func))));
                    t.push((
                        "args",
                        J::A(args.iter().map(|a| self.operand(def, body, &a.node)).collect()),
                    ));
                    t.push(("dest", self.place(body, destination)));
                    t.push(("t", target.map(|b| bbn(b)).unwrap_or(J::Null)));
                    let (_, fl) = self.line(*fn_span);
                    t.push(("fln", J::N(fl as i128)));
                }
                TerminatorKind::TailCall { func, args, .. } => {
                    t.push(("k", J::s("call")));
                    t.push(("tail", J::B(true)));
                    t.push(("fn", J::O(self.callee(def, body, func))));
                    t.push((
                        "args",
                        J::A(args.iter().map(|a| self.operand(def, body, &a.node)).collect()),
                    ));
                }
                TerminatorKind::Assert { cond, expected, msg, target, .. } => {
                    t.push(("k", J::s("assert")));
                    t.push(("cond", self.operand(def, body, cond)));
                    t.push(("exp", J::B(*expected)));
                    let (mk, mops): (String, Vec<J>) = match &**msg {
                        mir::AssertKind::BoundsCheck { len, index } => (
                            "BoundsCheck".into(),
                            vec![self.operand(def, body, len), self.operand(def, body, index)],
                        ),
                        mir::AssertKind::Overflow(op, a, b) => (
                            format!("Overflow({:?})", op),
                            vec![self.operand(def, body, a), self.operand(def, body, b)],
                        ),
                        mir::AssertKind::OverflowNeg(a) => {
                            ("OverflowNeg".into(), vec![self.operand(def, body, a)])
                        }
                        mir::AssertKind::DivisionByZero(a) => {
                            ("DivisionByZero".into(), vec![self.operand(def, body, a)])
                        }
                        mir::AssertKind::RemainderByZero(a) => {
                            ("RemainderByZero".into(), vec![self.operand(def, body, a)])
                        }
                        other => (
                            format!("{:?}", other).split('(').next().unwrap_or("").to_string(),
                            vec![],
                        ),
                    };
                    t.push(("msg", J::S(mk)));
                    t.push(("mops", J::A(mops)));
                    t.push(("t", bbn(*target)));
                }
                TerminatorKind::Yield { value, resume, resume_arg, .. } => {
                    t.push(("k", J::s("yield")));
                    t.push(("v", self.operand(def, body, value)));
                    t.push(("t", bbn(*resume)));
                    t.push(("dest", self.place(body, resume_arg)));
                }
                TerminatorKind::InlineAsm { targets, .. } => {
                    t.push(("k", J::s("asm")));
                    t.push(("ts", J::A(targets.iter().map(|b| bbn(*b)).collect())));
                }
            }
            t.push(("ln", J::N(tln as i128)));
            t.push(("mac", self.macro_name(term.source_info.span)));
            let mut b: Vec<(&'static str, J)> = vec![];
            if data.is_cleanup {
                b.push(("cleanup", J::B(true)));
            }
            b.push(("s", J::A(stmts)));
            b.push(("t", J::O(t)));
            blocks.push(J::O(b));
        }
        o.push(("blocks", J::A(blocks)));
        J::O(o).write(out);
        out.push('\n');
    }

    fn types(&self, out: &mut String) {
        let tcx = self.tcx;
        for id in tcx.hir_free_items() {
            let did = id.owner_id.to_def_id();
            match tcx.def_kind(did) {
                DefKind::Struct | DefKind::Enum | DefKind::Union => {
                    let adt = tcx.adt_def(did);
                    let mut vars = vec![];
                    for (vi, v) in adt.variants().iter_enumerated() {
                        let fields: Vec<J> = v
                            .fields
                            .iter()
                            .map(|f| {
                                let t = tcx.type_of(f.did).instantiate_identity().skip_norm_wip();
                                J::O(vec![
                                    ("n", J::S(f.name.to_string())),
                                    ("ty", J::S(self.ty_s(t))),
                                    ("vis", J::S(format!("{:?}", f.vis))),
                                ])
                            })
                            .collect();
                        let discr = if adt.is_enum() {
                            J::N(adt.discriminant_for_variant(tcx, vi).val as i128)
                        } else {
                            J::Null
                        };
                        vars.push(J::O(vec![
                            ("n", J::S(v.name.to_string())),
                            ("discr", discr),
                            ("fields", J::A(fields)),
                        ]));
                    }
                    let (file, line) = self.line(tcx.def_span(did));
                    J::O(vec![
                        ("k", J::s("adt")),
                        ("crate", J::S(self.krate.clone())),
                        ("path", J::S(self.path(did))),
                        ("kind", J::S(format!("{:?}", tcx.def_kind(did)))),
                        ("vis", J::S(format!("{:?}", tcx.visibility(did)))),
                        ("file", J::S(file)),
                        ("ln", J::N(line as i128)),
                        ("variants", J::A(vars)),
                    ])
                    .write(out);
                    out.push('\n');
                }
                DefKind::Impl { of_trait } => {
                    let st = tcx.type_of(did).instantiate_identity().skip_norm_wip();
                    let mut o: Vec<(&'static str, J)> = vec![
                        ("k", J::s("impl")),
                        ("crate", J::S(self.krate.clone())),
                        ("self", J::S(self.ty_s(st))),
                    ];
                    if let ty::Adt(adt, _) = st.kind() {
                        o.push(("adt", J::S(self.path(adt.did()))));
                    }
                    if of_trait {
                        let tr = tcx.impl_trait_ref(did).instantiate_identity().skip_norm_wip();
                        o.push(("trait", J::S(self.path(tr.def_id))));
                        o.push(("trait_full", J::S(with_no_trimmed_paths!(tr.to_string()))));
                    }
                    let items: Vec<J> = tcx
                        .associated_items(did)
                        .in_definition_order()
                        .map(|it| {
                            J::O(vec![
                                ("n", J::S(it.name().to_string())),
                                ("kind", J::S(format!("{:?}", it.kind).split('{').next().unwrap_or("").trim().to_string())),
                                ("path", J::S(self.path(it.def_id))),
                            ])
                        })
                        .collect();
                    o.push(("items", J::A(items)));
                    let (file, line) = self.line(tcx.def_span(did));
                    o.push(("file", J::S(file)));
                    o.push(("ln", J::N(line as i128)));
                    J::O(o).write(out);
                    out.push('\n');
                }
                DefKind::Const { .. } | DefKind::Static { .. } => {
                    let t = tcx.type_of(did).instantiate_identity().skip_norm_wip();
                    let mut o: Vec<(&'static str, J)> = vec![
                        ("k", J::s("const")),
                        ("crate", J::S(self.krate.clone())),
                        ("path", J::S(self.path(did))),
                        ("ty", J::S(self.ty_s(t))),
                    ];
                    if matches!(tcx.def_kind(did), DefKind::Const { .. })
                        && (t.is_integral() || t.is_bool())
                        && tcx.generics_of(did).is_empty()
                    {
                        if let Ok(v) = tcx.const_eval_poly(did) {
                            if let Some(si) = v.try_to_scalar_int() {
                                let bits = si.to_bits_unchecked();
                                let n = if t.is_signed() {
                                    si.size().sign_extend(bits) as i128
                                } else {
                                    bits as i128
                                };
                                o.push(("int", J::N(n)));
                            }
                        }
                    }
                    J::O(o).write(out);
                    out.push('\n');
                }
                _ => {}
            }
        }
    }
}

struct Cb;

impl rustc_driver::Callbacks for Cb {
    fn after_expansion<'tcx>(
        &mut self,
        _c: &rustc_interface::interface::Compiler,
        tcx: TyCtxt<'tcx>,
    ) -> rustc_driver::Compilation {
        let dir = match std::env::var("FACTGEN_OUT") {
            Ok(d) => d,
            Err(_) => return rustc_driver::Compilation::Continue,
        };
        let krate = tcx.crate_name(rustc_hir::def_id::LOCAL_CRATE).to_string();
        if krate == "build_script_build" {
            return rustc_driver::Compilation::Continue;
        }
        if let Ok(only) = std::env::var("FACTGEN_ONLY") {
            if !only.split(',').any(|c| c == krate) {
                return rustc_driver::Compilation::Continue;
            }
        }
        let cx = Cx { tcx, krate: krate.clone() };
        let mut out = String::with_capacity(1 << 24);
        let mut nbodies = 0usize;
        // Phase 1: clone every built body before any other query can steal it
        // (const evaluation and opaque-type resolution run borrowck on local
        // bodies, which steals `mir_built`).
        let mut built: Vec<(LocalDefId, Body<'tcx>)> = vec![];
        for def in tcx.hir_body_owners() {
            let kind = tcx.def_kind(def);
            match kind {
                DefKind::Fn
                | DefKind::AssocFn
                | DefKind::Closure
                | DefKind::Const { .. }
                | DefKind::Static { .. }
                | DefKind::AssocConst { .. } => {}
                _ => continue,
            }
            built.push((def, tcx.mir_built(def).borrow().clone()));
        }
        // Phase 2: serialise.
        for (def, body) in built.iter() {
            cx.body(*def, body, &mut out);
            nbodies += 1;
        }
        drop(built);
        cx.types(&mut out);
        // manifest line
        let mut feats: Vec<String> = vec![];
        for (name, val) in tcx.sess.config.iter() {
            if name.as_str() == "feature" {
                if let Some(v) = val {
                    feats.push(v.to_string());
                }
            }
        }
        feats.sort();
        let is_test = tcx.sess.opts.test;
        J::O(vec![
            ("k", J::s("manifest")),
            ("crate", J::S(krate.clone())),
            ("features", J::A(feats.into_iter().map(J::S).collect())),
            ("bodies", J::N(nbodies as i128)),
            ("test", J::B(is_test)),
            ("rustc", J::S(rustc_interface::util::rustc_version_str().unwrap_or("?").to_string())),
        ])
        .write(&mut out);
        out.push('\n');
        let path = format!("{}/{}-{}.jsonl", dir, krate, std::process::id());
        std::fs::write(&path, out).expect("factgen: cannot write fact file");
        rustc_driver::Compilation::Continue
    }
}

fn main() {
    let mut args: Vec<String> = std::env::args().collect();
    // RUSTC_WORKSPACE_WRAPPER: argv[1] is the path of the real rustc
    if args.len() > 1 && (args[1].ends_with("rustc") || args[1].contains("/rustc")) {
        args.remove(1);
    }
    rustc_driver::run_compiler(&args, &mut Cb);
}
