
#[cfg(test)]
mod verif_f4_demo {
    use actix_web::http::header::{self, HeaderMap, HeaderValue};
    use futures_util::{stream, StreamExt as _};

    use crate::Multipart;

    #[actix_rt::test]
    async fn truncated_field_does_not_hang() {
        for tail in ["\r", "\r\n", "\r\n-", "\r\n--abb", "\r\n--abbc761f78ff4d7cb7573b5a23f96ef"] {
            let body = format!(
                "--abbc761f78ff4d7cb7573b5a23f96ef0\r\nContent-Disposition: form-data; name=\"a\"\r\n\r\ndata{}",
                tail
            );
            let mut headers = HeaderMap::new();
            headers.insert(
                header::CONTENT_TYPE,
                HeaderValue::from_static("multipart/form-data; boundary=\"abbc761f78ff4d7cb7573b5a23f96ef0\""),
            );
            let payload = stream::iter(vec![Ok::<_, actix_web::error::PayloadError>(actix_web::web::Bytes::from(body))]);
            let mut mp = Multipart::new(&headers, payload);
            let res = actix_rt::time::timeout(std::time::Duration::from_secs(2), async {
                let mut field = mp.next().await.unwrap().unwrap();
                let mut saw_err = false;
                while let Some(chunk) = field.next().await {
                    if chunk.is_err() {
                        saw_err = true;
                        break;
                    }
                }
                saw_err
            })
            .await;
            assert_eq!(res.ok(), Some(true), "tail {:?}", tail);
        }
    }
}
