// Demonstrations for findings F3 (C14-a) and F12 (C14-d). Drop into actix-http/tests/ to run:
//   cargo test --offline -p actix-http --features ws --test F3_F12_ws_demo
use actix_codec::Decoder as _;
use actix_http::ws::{Codec, Parser, ProtocolError};
use bytes::BytesMut;

#[test]
fn f3_oversized_frame_is_refused_before_buffering() {
    // unmasked binary frame header announcing 2^32 bytes (marker 127), client role, then 100 payload bytes
    let mut buf = BytesMut::new();
    buf.extend_from_slice(&[0x82, 127]);
    buf.extend_from_slice(&(1u64 << 32).to_be_bytes());
    buf.extend_from_slice(&[0u8; 100]);
    // max_size = 16: the frame can never be accepted; asking for more input means buffering it
    let res = Parser::parse(&mut buf, false, 16);
    assert!(matches!(res, Err(ProtocolError::Overflow)), "got {:?}", res.map(|_| ()));
}

#[test]
fn f12_complete_data_frame_inside_fragmented_message_is_rejected() {
    let mut codec = Codec::new().client_mode();
    let mut buf = BytesMut::new();
    // first fragment of a text message: FIN=0, opcode text, len 1
    buf.extend_from_slice(&[0x01, 1, b'a']);
    // a complete (FIN=1) text frame interleaved before the fragmented message finished
    buf.extend_from_slice(&[0x81, 1, b'b']);
    assert!(codec.decode(&mut buf).unwrap().is_some());
    let second = codec.decode(&mut buf);
    assert!(second.is_err(), "interleaved data frame was accepted: {:?}", second);
}
