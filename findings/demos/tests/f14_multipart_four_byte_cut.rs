//! F14 (C15): a chunk boundary exactly 4 bytes into the field delimiter (`\r\n--`) must not leak the
//! delimiter prefix into the field's data.
use std::{pin::Pin, task::{Context, Poll}};

use actix_multipart::Multipart;
use actix_web::{error::PayloadError, http::header::{self, HeaderMap, HeaderValue}, web::Bytes};
use futures_core::Stream;
use futures_util::StreamExt as _;

struct Chunks(Vec<Bytes>, u8);
impl Stream for Chunks {
    type Item = Result<Bytes, PayloadError>;
    fn poll_next(mut self: Pin<&mut Self>, cx: &mut Context<'_>) -> Poll<Option<Self::Item>> {
        // one Pending between chunks so the parser sees each cut
        // several Pendings between chunks so the parser runs on each intermediate buffer state
        if self.1 > 0 {
            self.1 -= 1;
            cx.waker().wake_by_ref();
            return Poll::Pending;
        }
        self.1 = 3;
        if self.0.is_empty() { Poll::Ready(None) } else { Poll::Ready(Some(Ok(self.0.remove(0)))) }
    }
}

#[actix_rt::test]
async fn cut_four_bytes_into_delimiter() {
    let b = "abbc761f78ff4d7cb7573b5a23f96ef0";
    let body = format!("--{b}\r\nContent-Disposition: form-data; name=\"a\"\r\n\r\none+one\r\n--{b}\r\nContent-Disposition: form-data; name=\"b\"\r\n\r\ntwo\r\n--{b}--\r\n");
    let cut = body.find("one+one").unwrap() + "one+one".len() + 4; // right after "\r\n--"
    let (x, y) = body.split_at(cut);
    let mut headers = HeaderMap::new();
    headers.insert(header::CONTENT_TYPE, HeaderValue::from_str(&format!("multipart/form-data; boundary=\"{b}\"")).unwrap());
    let mut mp = Multipart::new(&headers, Chunks(vec![Bytes::from(x.to_owned()), Bytes::from(y.to_owned())], 0));
    let mut got = vec![];
    while let Some(field) = mp.next().await {
        let mut field = field.unwrap();
        let mut data = Vec::new();
        while let Some(chunk) = field.next().await {
            data.extend_from_slice(&chunk.unwrap());
        }
        got.push(String::from_utf8_lossy(&data).into_owned());
    }
    assert_eq!(got, vec!["one+one".to_owned(), "two".to_owned()]);
}
