//! F8 (C08-a): an empty chunk produced by a MessageBody must not stall an HTTP/2 stream.
use std::{
    convert::Infallible,
    pin::Pin,
    task::{Context, Poll},
    time::Duration,
};

use actix_http::{
    body::{BodySize, MessageBody},
    HttpService, Request, Response,
};
use actix_http_test::test_server;
use actix_utils::future::ok;
use bytes::Bytes;

struct Chunks(Vec<&'static str>);

impl MessageBody for Chunks {
    type Error = Infallible;
    fn size(&self) -> BodySize {
        BodySize::Stream
    }
    fn poll_next(mut self: Pin<&mut Self>, _: &mut Context<'_>) -> Poll<Option<Result<Bytes, Self::Error>>> {
        if self.0.is_empty() {
            Poll::Ready(None)
        } else {
            Poll::Ready(Some(Ok(Bytes::from_static(self.0.remove(0).as_bytes()))))
        }
    }
}

#[actix_rt::test]
async fn empty_chunk_does_not_stall_h2_stream() {
    let srv = test_server(|| {
        HttpService::build()
            .finish(|_req: Request| ok::<_, Infallible>(Response::ok().set_body(Chunks(vec!["aaa", "", "bbb"]))))
            .tcp_auto_h2c()
    })
    .await;

    let tcp = actix_rt::net::TcpStream::connect(srv.addr()).await.unwrap();
    let (mut client, conn) = h2::client::handshake(tcp).await.unwrap();
    actix_rt::spawn(async move {
        let _ = conn.await;
    });
    let req = http::Request::builder().uri("http://localhost/").body(()).unwrap();
    let (resp, _) = client.send_request(req, true).unwrap();
    let got = actix_rt::time::timeout(Duration::from_secs(3), async move {
        let resp = resp.await.unwrap();
        let mut body = resp.into_body();
        let mut out = Vec::new();
        while let Some(chunk) = body.data().await {
            let chunk = chunk.unwrap();
            let _ = body.flow_control().release_capacity(chunk.len());
            out.extend_from_slice(&chunk);
        }
        out
    })
    .await;
    assert_eq!(got.ok().as_deref(), Some(&b"aaabbb"[..]), "h2 response stalled or was cut at the empty chunk");
}
