//! F11 (C13-c): a Content-Length announced by the handler for the uncoded body must not be sent
//! with the coded body. Over HTTP/1 the encoder drops it (chunked framing is re-enabled); over
//! HTTP/2 `prepare_response` copies it whenever the body size is `Stream`.
use std::{convert::Infallible, time::Duration};

use actix_http::{
    encoding::Encoder,
    header::{ContentEncoding, HeaderValue, CONTENT_LENGTH},
    HttpService, Request, Response,
};
use actix_http_test::test_server;
use actix_utils::future::ok;

#[actix_rt::test]
async fn stale_content_length_is_not_sent_over_h2() {
    let srv = test_server(|| {
        HttpService::build()
            .finish(|_req: Request| {
                let mut res = Response::ok().set_body("a".repeat(3000));
                res.headers_mut().insert(CONTENT_LENGTH, HeaderValue::from_static("3000"));
                ok::<_, Infallible>(res.map_body(|head, body| Encoder::response(ContentEncoding::Gzip, head, body)))
            })
            .tcp_auto_h2c()
    })
    .await;

    let tcp = actix_rt::net::TcpStream::connect(srv.addr()).await.unwrap();
    let (mut client, conn) = h2::client::handshake(tcp).await.unwrap();
    actix_rt::spawn(async move {
        let _ = conn.await;
    });
    let req = http::Request::builder().uri("http://localhost/").body(()).unwrap();
    let (resp, _) = client.send_request(req, true).unwrap();
    let got = actix_rt::time::timeout(Duration::from_secs(3), async move {
        let resp = resp.await.unwrap();
        let cl = resp.headers().get("content-length").cloned();
        let ce = resp.headers().get("content-encoding").cloned();
        let mut body = resp.into_body();
        let mut n = 0usize;
        let mut err = None;
        while let Some(chunk) = body.data().await {
            match chunk {
                Ok(c) => {
                    let _ = body.flow_control().release_capacity(c.len());
                    n += c.len();
                }
                Err(e) => {
                    err = Some(e.to_string());
                    break;
                }
            }
        }
        (cl, ce, n, err)
    })
    .await
    .expect("timeout");
    eprintln!("content-length={:?} content-encoding={:?} body bytes={} err={:?}", got.0, got.1, got.2, got.3);
    assert_eq!(got.1.as_ref().map(|v| v.as_bytes()), Some(&b"gzip"[..]));
    assert!(got.3.is_none(), "h2 client rejected the response: {:?}", got.3);
    if let Some(cl) = got.0 {
        assert_eq!(cl.to_str().unwrap().parse::<usize>().unwrap(), got.2, "content-length does not describe the coded body");
    }
}
