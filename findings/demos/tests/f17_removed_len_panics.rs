//! F17 (C18, size hints): `Removed` implements `ExactSizeIterator`, but for a name that was not in the map its
//! `size_hint()` is `(0, None)`; `ExactSizeIterator::len()` asserts `upper == Some(lower)` and panics.
use actix_http::header::{HeaderMap, HeaderValue, CONTENT_TYPE};

#[test]
fn len_of_an_empty_removal_is_zero() {
    let mut map = HeaderMap::new();
    map.insert(CONTENT_TYPE, HeaderValue::from_static("text/plain"));
    let removed = map.remove("x-not-there");
    assert_eq!(removed.size_hint(), (0, Some(0)));
    assert_eq!(removed.len(), 0);
}

#[test]
fn control_len_of_a_real_removal() {
    let mut map = HeaderMap::new();
    map.append(CONTENT_TYPE, HeaderValue::from_static("a"));
    map.append(CONTENT_TYPE, HeaderValue::from_static("b"));
    assert_eq!(map.remove(CONTENT_TYPE).len(), 2);
}
