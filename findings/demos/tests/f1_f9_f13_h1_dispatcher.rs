//! Known findings on the h1 dispatcher, reproduced against the real code.
//! These tests FAIL on the current tree (they document the defects):
//!  F1  (C02-a) response i framed with HEAD flag / version of a later pipelined request
//!  F9  (C03-b) request pipelined behind a `connection: close` response is still dispatched
//!  F13 (C02-c) body bytes follow a 204 head
use std::{
    convert::Infallible,
    io::{Read, Write},
    time::Duration,
};

use actix_http::{HttpService, Request, Response, StatusCode};
use actix_http_test::test_server;

fn roundtrip(addr: std::net::SocketAddr, req: &'static [u8]) -> String {
    let mut s = std::net::TcpStream::connect(addr).unwrap();
    s.set_read_timeout(Some(Duration::from_secs(3))).unwrap();
    s.write_all(req).unwrap();
    let mut out = Vec::new();
    let mut buf = [0u8; 4096];
    loop {
        match s.read(&mut buf) {
            Ok(0) => break,
            Ok(n) => out.extend_from_slice(&buf[..n]),
            Err(_) => break,
        }
    }
    String::from_utf8_lossy(&out).into_owned()
}

async fn server() -> actix_http_test::TestServer {
    test_server(|| {
        HttpService::build()
            .h1(|req: Request| async move {
                if req.path() == "/slow" {
                    actix_rt::time::sleep(Duration::from_millis(100)).await;
                }
                if req.path() == "/204" {
                    return Ok::<_, Infallible>(Response::with_body(StatusCode::NO_CONTENT, "abc").map_into_boxed_body());
                }
                Ok::<_, Infallible>(Response::ok().set_body("hello").map_into_boxed_body())
            })
            .tcp()
    })
    .await
}

#[actix_rt::test]
async fn f1_get_response_framed_by_later_head_request() {
    let srv = server().await;
    let addr = srv.addr();
    let data = actix_rt::task::spawn_blocking(move || {
        roundtrip(addr, b"GET /slow HTTP/1.1\r\nHost: x\r\n\r\nHEAD /x HTTP/1.1\r\nHost: x\r\nConnection: close\r\n\r\n")
    })
    .await
    .unwrap();
    // first response (to GET) must carry its 5-byte body
    let first_body_start = data.find("\r\n\r\n").unwrap() + 4;
    assert!(data[first_body_start..].starts_with("hello"), "GET response lost its body: {:?}", data);
}

#[actix_rt::test]
async fn f9_request_behind_connection_close_is_not_served() {
    let srv = server().await;
    let addr = srv.addr();
    let data = actix_rt::task::spawn_blocking(move || {
        roundtrip(addr, b"GET /a HTTP/1.1\r\nHost: x\r\nConnection: close\r\n\r\nGET /b HTTP/1.1\r\nHost: x\r\n\r\n")
    })
    .await
    .unwrap();
    assert_eq!(data.matches("HTTP/1.1 200 OK").count(), 1, "a second response followed `connection: close`: {:?}", data);
}

#[actix_rt::test]
async fn f13_no_body_bytes_after_204() {
    let srv = server().await;
    let addr = srv.addr();
    let data = actix_rt::task::spawn_blocking(move || roundtrip(addr, b"GET /204 HTTP/1.1\r\nHost: x\r\nConnection: close\r\n\r\n"))
        .await
        .unwrap();
    let after_head = &data[data.find("\r\n\r\n").unwrap() + 4..];
    assert!(after_head.is_empty(), "bytes follow a 204 head: {:?}", data);
}
