//! F10 (C17-c): with `limit(1)` the client keeps idle connections to other authorities open, so the
//! number of simultaneously open connections exceeds the configured limit. This test FAILS on the
//! current tree (known finding).
use std::{
    io::{Read, Write},
    sync::{atomic::{AtomicUsize, Ordering}, Arc},
    time::Duration,
};

fn server(open: Arc<AtomicUsize>, max: Arc<AtomicUsize>) -> std::net::SocketAddr {
    let l = std::net::TcpListener::bind("127.0.0.1:0").unwrap();
    let addr = l.local_addr().unwrap();
    std::thread::spawn(move || {
        for s in l.incoming() {
            let mut s = match s { Ok(s) => s, Err(_) => break };
            let open = open.clone();
            let max = max.clone();
            std::thread::spawn(move || {
                let n = open.fetch_add(1, Ordering::SeqCst) + 1;
                max.fetch_max(n, Ordering::SeqCst);
                let mut buf = [0u8; 2048];
                loop {
                    match s.read(&mut buf) {
                        Ok(0) | Err(_) => break,
                        Ok(_) => {
                            let _ = s.write_all(b"HTTP/1.1 200 OK\r\nContent-Length: 2\r\n\r\nok");
                        }
                    }
                }
                open.fetch_sub(1, Ordering::SeqCst);
            });
        }
    });
    addr
}

#[actix_rt::test]
async fn open_connections_never_exceed_limit() {
    let open = Arc::new(AtomicUsize::new(0));
    let max = Arc::new(AtomicUsize::new(0));
    let addrs: Vec<_> = (0..3).map(|_| server(open.clone(), max.clone())).collect();
    let client = awc::Client::builder().connector(awc::Connector::new().limit(1)).finish();
    for a in &addrs {
        let mut res = client.get(format!("http://{}/", a)).send().await.unwrap();
        assert_eq!(&res.body().await.unwrap()[..], b"ok");
    }
    actix_rt::time::sleep(Duration::from_millis(200)).await;
    let m = max.load(Ordering::SeqCst);
    assert!(m <= 1, "limit(1) but {} connections were open at the same time", m);
}
