//! F5 (C16-c / C19-a): a suffix range on an empty file must not panic / emit an impossible Content-Range.
use actix_files::NamedFile;
use actix_web::{http::header, test::TestRequest};

#[actix_rt::test]
async fn suffix_range_on_empty_file_is_416_not_a_panic() {
    let path = std::env::temp_dir().join("verif_f5_empty_file.txt");
    std::fs::write(&path, b"").unwrap();
    let file = NamedFile::open(&path).unwrap();
    let req = TestRequest::default().insert_header((header::RANGE, "bytes=-5")).to_http_request();
    let res = std::panic::catch_unwind(std::panic::AssertUnwindSafe(|| file.into_response(&req)));
    let res = res.expect("panicked while computing Content-Range");
    let cr = res.headers().get(header::CONTENT_RANGE).map(|v| v.to_str().unwrap().to_owned());
    assert!(
        res.status() == 416 || res.status() == 200,
        "status {} content-range {:?}",
        res.status(),
        cr
    );
    if let Some(cr) = cr {
        assert!(!cr.contains("18446744073709551615"), "impossible range {:?}", cr);
    }
}
