//! F16 (C13, negotiation): `Accept-Encoding: identity;q=0, *;q=0.5` refuses the identity coding explicitly; the more
//! specific item wins over `*` (RFC 7231 section 5.3.4). `is_identity_acceptable` walks the items in descending order of
//! quality and stops at whichever of `identity` / `*` comes first, so here it stops at `*;q=0.5` and reports identity as
//! acceptable: `negotiate` then answers with the refused coding.
use actix_web::http::header::{AcceptEncoding, ContentEncoding, Encoding, Preference, QualityItem, q};

fn header() -> AcceptEncoding {
    AcceptEncoding(vec![
        QualityItem::new(Preference::Specific(Encoding::identity()), q(0.0)),
        QualityItem::new(Preference::Any, q(0.5)),
    ])
}

#[test]
fn refused_identity_is_not_chosen_when_it_is_all_the_server_has() {
    let supported = [Encoding::identity()];
    let got = header().negotiate(supported.iter());
    assert_ne!(got, Some(Encoding::identity()), "identity;q=0 was answered with identity");
}

#[test]
fn refused_identity_is_not_chosen_when_other_codings_exist() {
    let supported = [Encoding::identity(), Encoding::Known(ContentEncoding::Gzip)];
    let got = header().negotiate(supported.iter());
    assert_ne!(got, Some(Encoding::identity()), "identity;q=0 was answered with identity");
}

#[test]
fn control_wildcard_alone_still_permits_identity() {
    let hdr = AcceptEncoding(vec![QualityItem::new(Preference::Any, q(0.5))]);
    let supported = [Encoding::identity()];
    assert_eq!(hdr.negotiate(supported.iter()), Some(Encoding::identity()));
    let hdr = AcceptEncoding(vec![QualityItem::new(Preference::Any, q(0.0))]);
    assert_eq!(hdr.negotiate(supported.iter()), None);
}
