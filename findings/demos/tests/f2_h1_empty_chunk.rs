//! F2 (C02-b): an empty chunk produced by a custom MessageBody must not terminate a chunked response.
use std::{
    convert::Infallible,
    io::{Read, Write},
    pin::Pin,
    task::{Context, Poll},
};

use actix_http::{
    body::{BodySize, MessageBody},
    HttpService, Request, Response,
};
use actix_http_test::test_server;
use actix_utils::future::ok;
use bytes::Bytes;

struct Chunks(Vec<&'static str>);

impl MessageBody for Chunks {
    type Error = Infallible;
    fn size(&self) -> BodySize {
        BodySize::Stream
    }
    fn poll_next(
        mut self: Pin<&mut Self>,
        _: &mut Context<'_>,
    ) -> Poll<Option<Result<Bytes, Self::Error>>> {
        if self.0.is_empty() {
            Poll::Ready(None)
        } else {
            Poll::Ready(Some(Ok(Bytes::from_static(self.0.remove(0).as_bytes()))))
        }
    }
}

#[actix_rt::test]
async fn empty_chunk_does_not_end_chunked_body() {
    let srv = test_server(|| {
        HttpService::build()
            .h1(|_req: Request| ok::<_, Infallible>(Response::ok().set_body(Chunks(vec!["aaa", "", "bbb"]))))
            .tcp()
    })
    .await;

    let addr = srv.addr();
    let data = actix_rt::task::spawn_blocking(move || {
        let mut s = std::net::TcpStream::connect(addr).unwrap();
        s.write_all(b"GET / HTTP/1.1\r\nHost: x\r\nConnection: close\r\n\r\n").unwrap();
        let mut out = Vec::new();
        let _ = s.read_to_end(&mut out);
        String::from_utf8_lossy(&out).into_owned()
    })
    .await
    .unwrap();

    let body = data.split("\r\n\r\n").nth(1).unwrap_or("").to_owned() + &data.split("\r\n\r\n").skip(2).collect::<Vec<_>>().join("\r\n\r\n");
    assert!(
        data.contains("3\r\naaa\r\n3\r\nbbb\r\n0\r\n\r\n"),
        "chunked body was cut at the empty chunk: {:?} (body part {:?})",
        data,
        body
    );
}
