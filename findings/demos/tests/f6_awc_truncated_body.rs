//! F6 (C17-a): awc must report an error when the connection ends before the framed end of the body.
use std::io::{Read, Write};

fn serve_once(response: &'static [u8]) -> std::net::SocketAddr {
    let l = std::net::TcpListener::bind("127.0.0.1:0").unwrap();
    let addr = l.local_addr().unwrap();
    std::thread::spawn(move || {
        if let Ok((mut s, _)) = l.accept() {
            let mut buf = [0u8; 2048];
            let _ = s.read(&mut buf);
            let _ = s.write_all(response);
            let _ = s.flush();
            // close
        }
    });
    addr
}

async fn fetch(addr: std::net::SocketAddr) -> Result<Vec<u8>, String> {
    let client = awc::Client::default();
    let mut res = client.get(format!("http://{}/", addr)).send().await.map_err(|e| format!("send: {e}"))?;
    res.body().await.map(|b| b.to_vec()).map_err(|e| format!("body: {e}"))
}

#[actix_rt::test]
async fn content_length_body_cut_short_is_an_error() {
    let addr = serve_once(b"HTTP/1.1 200 OK\r\nContent-Length: 100\r\n\r\nshort");
    let r = fetch(addr).await;
    assert!(r.is_err(), "truncated Content-Length body delivered as success: {:?}", r.map(|b| String::from_utf8_lossy(&b).into_owned()));
}

#[actix_rt::test]
async fn chunked_body_without_last_chunk_is_an_error() {
    let addr = serve_once(b"HTTP/1.1 200 OK\r\nTransfer-Encoding: chunked\r\n\r\n5\r\nhello\r\n");
    let r = fetch(addr).await;
    assert!(r.is_err(), "chunked body without terminating chunk delivered as success: {:?}", r.map(|b| String::from_utf8_lossy(&b).into_owned()));
}

#[actix_rt::test]
async fn read_until_close_body_is_still_fine() {
    let addr = serve_once(b"HTTP/1.0 200 OK\r\n\r\nwhole body");
    let r = fetch(addr).await;
    assert_eq!(r.ok().as_deref(), Some(&b"whole body"[..]));
}
