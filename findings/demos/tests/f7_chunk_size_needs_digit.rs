//! F7 (C01-d): a chunk-size line without any hex digit must be rejected, not taken as the last chunk.
use actix_codec::Decoder as _;
use actix_http::h1::Codec;
use bytes::BytesMut;

#[actix_rt::test]
async fn empty_chunk_size_line_is_rejected() {
    for tail in ["\r\n\r\n", ";x\r\n\r\n", " \r\n\r\n"] {
        let mut codec = Codec::default();
        let mut buf = BytesMut::from(
            "POST /x HTTP/1.1\r\ntransfer-encoding: chunked\r\n\r\n3\r\nabc\r\n",
        );
        buf.extend_from_slice(tail.as_bytes());
        buf.extend_from_slice(b"GET /smuggled HTTP/1.1\r\n\r\n");
        assert!(codec.decode(&mut buf).unwrap().is_some()); // head
        assert!(codec.decode(&mut buf).unwrap().is_some()); // chunk abc
        let mut rejected = false;
        for _ in 0..4 {
            match codec.decode(&mut buf) {
                Err(_) => {
                    rejected = true;
                    break;
                }
                Ok(_) => {}
            }
        }
        assert!(rejected, "size line {:?} was accepted as the last chunk", tail);
    }
}
