//! F15 (C06 / C04-b): a timer whose deadline is already in the past when it is armed must still fire.
//! Deadlines are computed from the date service's cached clock, which can be up to 500 ms stale; with a
//! client request timeout shorter than that the head timer is armed with an expired deadline. `TimerState::init`
//! polls the new `Sleep` once and discards the result: `Ready` registers no waker, so if the request bytes were
//! already readable at the first poll and the peer then sends nothing more, the connection task is never polled
//! again: no 408 is written and the connection is never closed.
use std::{convert::Infallible, time::Duration};

use actix_http::{HttpService, Request, Response};
use actix_service::{Service as _, ServiceFactory as _};
use actix_utils::future::ok;
use tokio::io::{AsyncReadExt as _, AsyncWriteExt as _};

#[actix_rt::test]
async fn slow_head_gets_408_when_the_cached_clock_is_stale() {
    let svc = HttpService::build()
        .client_request_timeout(Duration::from_millis(100))
        .h1(|_req: Request| ok::<_, Infallible>(Response::ok()))
        .new_service(())
        .await
        .unwrap();

    // let the date service's cached `now` age beyond the request timeout (it is refreshed every 500 ms)
    let stale_ms: u64 = std::env::var("F15_STALE_MS").ok().and_then(|v| v.parse().ok()).unwrap_or(300);
    actix_rt::time::sleep(Duration::from_millis(stale_ms)).await;

    let (mut client, server) = tokio::io::duplex(4096);
    // the partial head is already readable when the connection is polled for the first time
    client.write_all(b"GET /test HTTP/1.1\r\n").await.unwrap();
    let conn = actix_rt::spawn(svc.call((server, None)));

    let mut buf = vec![0u8; 1024];
    let got = actix_rt::time::timeout(Duration::from_secs(3), client.read(&mut buf)).await;
    conn.abort();
    match got {
        Ok(Ok(n)) => assert!(String::from_utf8_lossy(&buf[..n]).starts_with("HTTP/1.1 408"), "unexpected answer {:?}", String::from_utf8_lossy(&buf[..n])),
        other => panic!("no 408 within 3 s of a 100 ms request timeout: {:?}", other.map(|r| r.map(|_| ()))),
    }
}
