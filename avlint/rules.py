"""Reusable rule helpers built on core queries."""
from .core import *  # noqa


def last_field(e):
    """last field projection of a place expression, or None"""
    if isinstance(e, tuple) and e[0] == "place":
        for p in reversed(e[2]):
            if isinstance(p, str) and p.startswith("."):
                return p
    return None


def fields_chain(e):
    if isinstance(e, tuple) and e[0] == "place":
        return [p for p in e[2] if isinstance(p, str) and p.startswith(".")]
    return []


def is_agg(e, pat):
    return isinstance(e, tuple) and e[0] == "agg" and rx(pat).search(e[2] or "") is not None


def agg_chain(e, maxd=6):
    """names of nested single-operand aggregates: Poll::Ready(Some(Ok(x))) ->
    ['..Poll::Ready', '..Option::Some', '..Result::Ok'] and the innermost expr"""
    names = []
    while isinstance(e, tuple) and e[0] == "agg" and e[1] == "adt" and maxd > 0:
        names.append(e[2])
        if len(e[3]) == 1:
            e = e[3][0]
        else:
            break
        maxd -= 1
    return names, e


def ret_sites(body, pred):
    """blocks where _0 is assigned an expression satisfying pred(expr)"""
    out = []
    for bb, e in body.ret_exprs():
        if pred(e):
            out.append((bb, e))
    return out


def method_calls_on_field(prog, field_pat, crates=None, bodies=None):
    """[(body, bb, term, method_name)] for calls whose first argument is a
    place ending in a field matching field_pat (receiver = that field)"""
    r = rx(field_pat)
    out = []
    it = bodies if bodies is not None else [b for p, b in sorted(prog.bodies.items())]
    for b in it:
        if crates and b.crate not in crates:
            continue
        for bb, t in b.calls():
            if not t["args"]:
                continue
            e = b.op_expr(t["args"][0])
            lf = last_field(e)
            if lf and r.search(lf):
                out.append((b, bb, t, cname(t).split("::")[-1]))
    return out


def dominated_by_call(prog, body, site, pat, depth=3, strict=True):
    """some block that dominates `site` calls (or reaches, depth-bounded) pat"""
    reach = prog.blocks_reaching(body, pat, depth)
    for d in body.dominators(site):
        if strict and d == site:
            continue
        if d in reach:
            return True
    return False


def guard_labels(body, site, expr_pred):
    """labels of dominating branch edges whose condition satisfies expr_pred"""
    return [(lab, a) for (e, lab, a) in body.guards(site) if expr_pred(e)]


def has_guard(body, site, expr_pred, label):
    for lab, a in guard_labels(body, site, expr_pred):
        if lab == label:
            return True
        if isinstance(label, (set, frozenset, tuple, list)) and lab in label:
            return True
    return False


def norm_cmp(e, truth=True):
    """normalise a boolean expression + truth value to
    (op in {Lt, Le, Eq}, a, b, truth) stripping Not; None if not a comparison"""
    while isinstance(e, tuple) and e[0] == "un" and e[1] == "Not":
        e = e[2]
        truth = not truth
    if isinstance(e, tuple) and e[0] == "bin":
        op, a, b = e[1], e[2], e[3]
        if op == "Ge":
            return ("Lt", a, b, not truth)
        if op == "Gt":
            return ("Le", a, b, not truth)
        if op == "Ne":
            return ("Eq", a, b, not truth)
        if op in ("Lt", "Le", "Eq"):
            return (op, a, b, truth)
    return None


def strip_not(e, truth=True):
    while isinstance(e, tuple) and e[0] == "un" and e[1] == "Not":
        e = e[2]
        truth = not truth
    return e, truth


def writes_of_field(prog, field_pat, crates=None):
    """[(body, bb, stmt, value_expr)] for assignments whose destination's
    *last* field matches"""
    r = rx(field_pat)
    out = []
    for p, b in sorted(prog.bodies.items()):
        if crates and b.crate not in crates:
            continue
        for bb, i, s in b.assigns():
            fl = [x for x in s["p"][1:] if isinstance(x, str) and x.startswith(".")]
            if fl and r.search(fl[-1]):
                out.append((b, bb, s, b.rv_expr(s["rv"], 8)))
    return out


def fn_short(b):
    return b.npath
