"""Reusable rule helpers built on core queries."""
import re

from .core import *  # noqa


def last_field(e):
    """last field projection of a place expression, or None"""
    if isinstance(e, tuple) and e[0] == "place":
        for p in reversed(e[2]):
            if isinstance(p, str) and p.startswith("."):
                return p
    return None


def fields_chain(e):
    if isinstance(e, tuple) and e[0] == "place":
        return [p for p in e[2] if isinstance(p, str) and p.startswith(".")]
    return []


def is_agg(e, pat):
    return isinstance(e, tuple) and e[0] == "agg" and rx(pat).search(e[2] or "") is not None


def agg_chain(e, maxd=6):
    """names of nested single-operand aggregates: Poll::Ready(Some(Ok(x))) ->
    ['..Poll::Ready', '..Option::Some', '..Result::Ok'] and the innermost expr"""
    names = []
    while isinstance(e, tuple) and e[0] == "agg" and e[1] == "adt" and maxd > 0:
        names.append(e[2])
        if len(e[3]) == 1:
            e = e[3][0]
        else:
            break
        maxd -= 1
    return names, e


def ret_sites(body, pred):
    """blocks where _0 is assigned an expression satisfying pred(expr)"""
    out = []
    for bb, e in body.ret_exprs():
        if pred(e):
            out.append((bb, e))
    return out


def method_calls_on_field(prog, field_pat, crates=None, bodies=None):
    """[(body, bb, term, method_name)] for calls whose first argument is a
    place ending in a field matching field_pat (receiver = that field)"""
    r = rx(field_pat)
    out = []
    it = bodies if bodies is not None else [b for p, b in sorted(prog.bodies.items())]
    for b in it:
        if crates and b.crate not in crates:
            continue
        for bb, t in b.calls():
            if not t["args"]:
                continue
            e = b.op_expr(t["args"][0])
            lf = last_field(e)
            if lf and r.search(lf):
                out.append((b, bb, t, cname(t).split("::")[-1]))
    return out


def dominated_by_call(prog, body, site, pat, depth=3, strict=True):
    """some block that dominates `site` calls (or reaches, depth-bounded) pat"""
    reach = prog.blocks_reaching(body, pat, depth)
    for d in body.dominators(site):
        if strict and d == site:
            continue
        if d in reach:
            return True
    return False


def guard_labels(body, site, expr_pred):
    """labels of dominating branch edges whose condition satisfies expr_pred"""
    return [(lab, a) for (e, lab, a) in body.guards(site) if expr_pred(e)]


def has_guard(body, site, expr_pred, label):
    for lab, a in guard_labels(body, site, expr_pred):
        if lab == label:
            return True
        if isinstance(label, (set, frozenset, tuple, list)) and lab in label:
            return True
    return False


def norm_cmp(e, truth=True):
    """normalise a boolean expression + truth value to
    (op in {Lt, Le, Eq}, a, b, truth) stripping Not; None if not a comparison"""
    while isinstance(e, tuple) and e[0] == "un" and e[1] == "Not":
        e = e[2]
        truth = not truth
    if isinstance(e, tuple) and e[0] == "bin":
        op, a, b = e[1], e[2], e[3]
        r = None
        if op == "Ge":
            r = ("Lt", a, b, not truth)
        elif op == "Gt":
            r = ("Le", a, b, not truth)
        elif op == "Ne":
            r = ("Eq", a, b, not truth)
        elif op in ("Lt", "Le", "Eq"):
            r = (op, a, b, truth)
        if r is not None and isinstance(r[1], tuple) and r[1][0] == "const" and not (isinstance(r[2], tuple) and r[2][0] == "const"):
            # a constant on the left (`K > x`) is the mirrored spelling of `x < K`: keep constants on the right so
            # that every rule sees one orientation.  a < b == t <=> b <= a == !t ; a <= b == t <=> b < a == !t
            r = {"Lt": ("Le", r[2], r[1], not r[3]), "Le": ("Lt", r[2], r[1], not r[3]), "Eq": ("Eq", r[2], r[1], r[3])}[r[0]]
        return r
    return None


def cmp_forms(e, truth=True):
    """norm_cmp plus the same comparison with mirrored operands (`K > x` for `x < K`): both spellings of one test"""
    n = norm_cmp(e, truth)
    if not n:
        return []
    m = {"Lt": ("Le", n[2], n[1], not n[3]), "Le": ("Lt", n[2], n[1], not n[3]), "Eq": ("Eq", n[2], n[1], n[3])}[n[0]]
    return [n, m]


def strip_not(e, truth=True):
    while isinstance(e, tuple) and e[0] == "un" and e[1] == "Not":
        e = e[2]
        truth = not truth
    return e, truth


def writes_of_field(prog, field_pat, crates=None):
    """[(body, bb, stmt, value_expr)] for assignments whose destination's
    *last* field matches"""
    r = rx(field_pat)
    out = []
    for p, b in sorted(prog.bodies.items()):
        if crates and b.crate not in crates:
            continue
        for bb, i, s in b.assigns():
            fl = [x for x in s["p"][1:] if isinstance(x, str) and x.startswith(".")]
            if fl and r.search(fl[-1]):
                out.append((b, bb, s, b.rv_expr(s["rv"], 8)))
    return out


def fn_short(b):
    return b.npath


def edges_where(body, pred):
    """edges (a, t) of switch blocks such that every label leading to t
    satisfies pred(cond_expr, label)"""
    out = set()
    for a in body.live:
        br = body.branch(a)
        if not br:
            continue
        by_t = {}
        for lab, tb in br[1]:
            by_t.setdefault(tb, []).append(lab)
        for tb, labs in by_t.items():
            if all(pred(br[0], lab) or any(pred(c2, l2) for c2, l2 in body.synonyms(br[0], lab)) for lab in labs):
                out.add((a, tb))
    return out


def guarded_by(body, site, pred, prune_dead=True):
    """every path entry -> site crosses an edge satisfying pred (set of edges,
    not necessarily a single dominating one: handles or-patterns with guards
    and short-circuit joins). Returns (ok, witness_path)"""
    es = edges_where(body, pred)
    rem = es | (body.dead_edges() if prune_dead else set())
    if site not in body.live:
        return True, None
    r = body.reach([0], removed_edges=rem)
    if site not in r:
        return bool(es), None
    return False, body.path_between([0], site, removed_edges=rem)


def cmp_pred(op, lhs_pred, rhs_pred, truth):
    """edge predicate: canonical comparison `lhs op rhs` has value `truth`"""

    def p(c, lab):
        if not isinstance(lab, bool):
            return False
        n = norm_cmp(c, lab)
        if not n:
            return False
        # the same comparison with its operands mirrored (`10 > len` for `len < 10`) is the same test:
        # a < b == t  <=>  b <= a == !t ;  a <= b == t  <=>  b < a == !t ;  a == b  <=>  b == a
        m = {"Lt": ("Le", n[2], n[1], not n[3]), "Le": ("Lt", n[2], n[1], not n[3]), "Eq": ("Eq", n[2], n[1], n[3])}[n[0]]
        return any(x[0] == op and x[3] is truth and lhs_pred(x[1]) and rhs_pred(x[2]) for x in (n, m))

    return p


def is_const_int(v):
    return lambda e: isinstance(e, tuple) and e[0] == "const" and e[2] == v


def labels_in(lab, names):
    """does switch label (variant name / ('otherwise', names) / ('oneof', ..)) lie within `names`?"""
    if isinstance(lab, str):
        return lab in names
    if isinstance(lab, tuple) and lab and lab[0] == "otherwise":
        return set(lab[1]) <= set(names)
    if isinstance(lab, tuple) and lab and lab[0] == "oneof":
        return all(labels_in(l, names) for l in lab[1])
    return False


def label_may_be(lab, name):
    if isinstance(lab, str):
        return lab == name
    if isinstance(lab, tuple) and lab and lab[0] == "otherwise":
        return name in lab[1]
    if isinstance(lab, tuple) and lab and lab[0] == "oneof":
        return any(label_may_be(l, name) for l in lab[1])
    return True


def reach_under(body, impossible, removed=()):
    """blocks reachable from entry when every edge satisfying one of the
    `impossible` edge predicates is deleted (an assumption about the state).
    Boolean temporaries assigned constants in match arms (`matches!`, `let b =
    match ..`) are threaded: an edge of a later test of the temporary is dead
    when no reachable arm stores that constant."""
    rem = set(body.dead_edges())
    for p in impossible:
        rem |= edges_where(body, p)
    for _ in range(8):
        r = body.reach([0], removed=removed, removed_edges=rem)
        new = set()
        for a in r:
            br = body.branch(a)
            if not br:
                continue
            c, tr = strip_not(br[0], True)
            if c[0] != "phi":
                continue
            defs = [d for d in body.defs().get(c[1], []) if d[1] in r]
            if not defs:
                continue
            vals = set()
            for d in defs:
                if d[0] == "=" and d[3]["k"] == "use" and "const" in d[3]["ops"][0] and d[3]["ops"][0]["const"].get("int") in (0, 1):
                    vals.add(d[3]["ops"][0]["const"]["int"])
                    continue
                # a non-constant definition: decided if the assumption itself fixes its truth
                e_d = body.def_expr(d, 6)
                if any(p(e_d, False) for p in impossible):
                    vals.add(1)
                elif any(p(e_d, True) for p in impossible):
                    vals.add(0)
                else:
                    vals = {0, 1}
                    break
            for lab, tb in br[1]:
                if isinstance(lab, bool):
                    v = lab if tr else (not lab)
                    if (1 if v else 0) not in vals:
                        new.add((a, tb))
        if new <= rem:
            break
        rem |= new
    return body.reach([0], removed=removed, removed_edges=rem), rem


def canon(e, depth=6):
    """canonical text of an expression: no block ids, no local numbers —
    used to compare guards/effects of sibling bodies"""
    if not isinstance(e, tuple):
        return str(e)
    if depth <= 0:
        return "…"
    k = e[0]
    if k == "const":
        if e[3] is not None:
            return repr(e[3])
        if e[1]:
            return "::".join(e[1].split("::")[-2:])
        return str(e[2])
    if k in ("arg", "var"):
        return e[2] or "_"
    if k == "phi":
        return "φ(%s)" % (e[2] or ",".join(sorted(canon(x, depth - 2) for x in e[3])))
    if k == "place":
        return canon(e[1], depth - 1) + "".join("." + p.rsplit(".", 1)[-1] if p.startswith(".") else p for p in e[2])
    if k == "call":
        nm = (e[1] or "?").split("::")
        return "%s(%s)" % ("::".join(nm[-2:]), ",".join(canon(a, depth - 1) for a in e[2]))
    if k == "bin":
        return "(%s %s %s)" % (canon(e[2], depth - 1), e[1], canon(e[3], depth - 1))
    if k == "un":
        return "%s(%s)" % (e[1], canon(e[2], depth - 1))
    if k == "cast":
        return canon(e[1], depth - 1)
    if k == "discr":
        return "discr(%s)" % canon(e[1], depth - 1)
    if k == "agg":
        return "%s{%s}" % ("::".join((e[2] or "").split("::")[-2:]), ",".join(canon(a, depth - 1) for a in e[3]))
    return k


def lab_s(lab):
    if isinstance(lab, tuple):
        if lab[0] == "otherwise":
            return "otherwise(%s)" % ",".join(sorted(map(str, lab[1])))
        if lab[0] == "oneof":
            return "oneof(%s)" % ",".join(sorted(lab_s(l) for l in lab[1]))
    return str(lab)


def deep_conds(body, c, depth=3, _seen=None):
    """a boolean computed through temporaries (`let x = a && b || c;`) is a
    phi whose definitions sit under further branches. Returns the list of all
    expressions that feed it: its definitions and the conditions guarding
    those definitions, recursively."""
    _seen = _seen if _seen is not None else set()
    out = [c]
    if depth <= 0:
        return out
    for x in walk(c):
        if x[0] == "phi" and x[1] not in _seen:
            _seen.add(x[1])
            for d in body.defs().get(x[1], []):
                e = body.def_expr(d, 6)
                out.extend(deep_conds(body, e, depth - 1, _seen))
                for g, lab, a in body.guards(d[1]):
                    out.extend(deep_conds(body, g, depth - 1, _seen))
    return out


def is_local_named(e, name):
    return isinstance(e, tuple) and e[0] in ("var", "phi", "arg") and e[2] == name


def agg_sites(body, pat):
    """[(bb, stmt, expr)] for every assignment (to any place) of an aggregate
    whose outermost or nested single-operand name matches pat"""
    r = rx(pat)
    out = []
    for bb, i, s in body.assigns():
        if s["rv"]["k"] != "agg":
            continue
        e = body.rv_expr(s["rv"], 6)
        names, _ = agg_chain(e)
        if any(r.search(n or "") for n in names):
            out.append((bb, s, e))
    return out


def base_local(body, op, depth=6):
    """the local a (possibly re-borrowed) operand ultimately refers to:
    follows `_t = &mut _x`, `_t = &(*_y)`, `_t = move _z` chains"""
    pl = op.get("copy") or op.get("move") if isinstance(op, dict) else op
    if not pl:
        return None
    l = pl[0]
    while depth > 0:
        if body.locals[l]["k"] in ("arg", "var"):
            return l
        ds = body.defs().get(l, [])
        if len(ds) == 1 and ds[0][0] == "call" and rx(r"Deref>::deref$|DerefMut>::deref_mut$|AsRef<.*>>::as_ref$|AsRef::as_ref$|Borrow<.*>>::borrow$|PathBuf::as_path$|String::as_str$").search(cname(ds[0][2])) and ds[0][2]["args"]:
            # `&*x`, `x.as_ref()`: still the same object
            a0 = ds[0][2]["args"][0]
            p0 = a0.get("copy") or a0.get("move")
            if not p0:
                return l
            l = p0[0]
            depth -= 1
            continue
        if len(ds) != 1 or ds[0][0] != "=":
            return l
        rv = ds[0][3]
        if rv["k"] in ("ref", "rawptr"):
            l = rv["p"][0]
        elif rv["k"] == "use":
            p2 = rv["ops"][0].get("copy") or rv["ops"][0].get("move")
            if not p2:
                return l
            l = p2[0]
        else:
            return l
        depth -= 1
    return l


def is_noise(body, bb):
    """block belongs to a tracing/log macro expansion"""
    m = body.term(bb).get("mac")
    return bool(m) and any(x in ("trace", "debug", "error", "warn", "info", "event", "log") for x in m)


def discr_of_call(c, pat):
    """c is `discr(<result of call matching pat>[projections])` — the call is
    the value being matched, not merely an input of it"""
    if not (isinstance(c, tuple) and c[0] == "discr"):
        return False
    e = c[1]
    if e[0] == "place":
        e = e[1]
    return e[0] == "call" and rx(pat).search(e[1] or "") is not None


# ---------------------------------------------------------------------------
# name-independent identification of locals (rules must survive a renaming of
# every local variable and parameter: ./check --anon re-runs them that way)
def is_local(e, l):
    """expression is (a use of) local number l"""
    if isinstance(l, (set, frozenset, list, tuple)):
        return isinstance(e, tuple) and e[0] in ("var", "phi", "arg") and e[1] in l
    return isinstance(e, tuple) and e[0] in ("var", "phi", "arg") and e[1] == l


def user_locals(body, ty_pat=None, kinds=("var",)):
    """numbers of the user-declared locals (optionally of a type)"""
    r = rx(ty_pat) if ty_pat else None
    return [i for i, l in enumerate(body.locals) if l.get("n") and l["k"] in kinds and (r is None or r.search(l["ty"]))]


def args_of_type(body, ty_pat):
    r = rx(ty_pat)
    return [i for i, l in enumerate(body.locals) if l["k"] == "arg" and r.search(l["ty"])]


def root_is(e, locs):
    """some root atom of the expression is one of the locals `locs`"""
    locs = set(locs) if not isinstance(locs, int) else {locs}
    return any(r[0] in ("var", "phi", "arg") and r[1] in locs for r in e_roots(e))


def bool_test(c, lab):
    """(expr, truth) of a boolean branch edge with Not stripped, or None"""
    if not isinstance(lab, bool):
        return None
    c2, tr = strip_not(c, True)
    return c2, (lab if tr else not lab)


def locals_guarding(body, site, truth=True, ty_pat=r"^bool$"):
    """user locals L such that `L == truth` is established on a dominating edge of `site`"""
    out = []
    ul = set(user_locals(body, ty_pat, kinds=("var", "arg")))
    for c, lab, a in body.guards(site):
        bt = bool_test(c, lab)
        if bt and bt[1] is truth and bt[0][0] in ("var", "phi", "arg") and bt[0][1] in ul:
            out.append(bt[0][1])
    return out


def shape(body, e, depth=4):
    """canonical text of an expression in which every local is rendered by kind and type instead of by
    name (`<arg:&mut u64>`, `<var:u8>`), captured variables as `^`, fields by their declared name: the key
    vocabulary of reasoned exception tables (stable under renaming of locals and parameters)"""
    if not isinstance(e, tuple):
        return str(e)
    if depth <= 0:
        return "…"
    k = e[0]
    if k == "const":
        if e[3] is not None:
            return repr(e[3])
        if e[1]:
            return "::".join(e[1].split("::")[-2:])
        return str(e[2])
    if k in ("arg", "var", "phi"):
        ty = re.sub(r"\{closure@[^}]*\}", "{closure}", body.lty(e[1]))
        return "<%s:%s>" % ("arg" if body.locals[e[1]]["k"] == "arg" else "var", ty.split("::")[-1])
    if k == "place":
        return shape(body, e[1], depth - 1) + "".join((".^" if p.startswith(".^") else "." + p.rsplit(".", 1)[-1]) if p.startswith(".") else p for p in e[2])
    if k == "call":
        nm = (e[1] or "?").split("::")
        return "%s(%s)" % ("::".join(nm[-2:]), ",".join(shape(body, a, depth - 1) for a in e[2]))
    if k == "bin":
        return "(%s %s %s)" % (shape(body, e[2], depth - 1), e[1], shape(body, e[3], depth - 1))
    if k == "un":
        return "%s(%s)" % (e[1], shape(body, e[2], depth - 1))
    if k == "cast":
        return shape(body, e[1], depth - 1)
    if k == "discr":
        return "discr(%s)" % shape(body, e[1], depth - 1)
    if k == "agg":
        return "%s{%s}" % ("::".join((e[2] or "").split("::")[-2:]), ",".join(shape(body, a, depth - 1) for a in e[3]))
    return k
