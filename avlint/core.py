"""avlint core: load factgen output, per-body CFG utilities, backward slicing
to expression trees, branch facts, dominance / must-pass / never-reach queries,
field-effect queries and a shallow interprocedural "reaches" summary.

Nothing here executes the analysed program; everything is graph search over
the MIR facts that `factgen` extracted from the type-checked crate.
"""
import glob
import json
import os
import re
import sys
from collections import defaultdict, deque

sys.setrecursionlimit(10000)

_GEN = re.compile(r"::<[^<>]*>")


def norm(name):
    """strip generic argument lists `::<...>` (balanced) from a def path"""
    if name is None:
        return None
    prev = None
    s = name
    while prev != s and "::<" in s:
        prev = s
        s = _GEN.sub("", s)
    return s


def strip_generics(ty):
    """`a::B<C, D>` -> `a::B` (outermost), also strips refs"""
    t = ty.strip()
    while t.startswith("&"):
        t = t[1:].lstrip()
        if t.startswith("mut "):
            t = t[4:]
        if t.startswith("'"):
            t = t.split(" ", 1)[1] if " " in t else t
    i = t.find("<")
    return t if i < 0 else t[:i]


_PRIMS = {"bool", "u8", "u16", "u32", "u64", "u128", "usize", "i8", "i16", "i32", "i64", "i128", "isize", "char"}


ANON = bool(os.environ.get("AVLINT_ANON"))
_UPVAR_NAME = re.compile(r"\.\^(\d+):[A-Za-z0-9_]+")


def _uncast(e):
    while isinstance(e, tuple) and e[0] == "cast":
        e = e[1]
    return e


class Body:
    def __init__(self, d):
        self.d = d
        self.path = d["path"]
        self.npath = norm(d["path"])
        self.crate = d["crate"]
        self.file = d["file"]
        self.lo = d["lo"]
        self.hi = d["hi"]
        self.dk = d["dk"]
        self.owner = d.get("owner")
        self.parent = d.get("parent")
        self.impl_adt = d.get("impl_adt")
        self.impl_self = d.get("impl_self")
        self.impl_trait = d.get("impl_trait")
        self.locals = d["locals"]
        self.blocks = d["blocks"]
        self.argc = d.get("argc", 0)
        self.upvars = d.get("upvars", [])
        self.nb = len(self.blocks)
        self.succ = [self._succ(b) for b in self.blocks]
        self.pred = [[] for _ in range(self.nb)]
        for a, ss in enumerate(self.succ):
            for s in ss:
                if a not in self.pred[s]:
                    self.pred[s].append(a)
        self._reach0 = None
        self._dom = None
        self._defs = None
        self._ecache = {}
        self.children = []  # closure bodies defined inside

    # ------------------------------------------------------------ CFG ----
    @staticmethod
    def _succ(b):
        t = b["t"]
        k = t["k"]
        out = []
        if k in ("goto", "drop", "assert", "yield"):
            out = [t["t"]]
        elif k == "call":
            if t.get("t") is not None:
                out = [t["t"]]
        elif k == "switch":
            out = [x[1] for x in t["ts"]] + [t["o"]]
        elif k == "asm":
            out = list(t.get("ts", []))
        res = []
        for x in out:
            if x not in res:
                res.append(x)
        return res

    def term(self, b):
        return self.blocks[b]["t"]

    def stmts(self, b):
        return self.blocks[b]["s"]

    def line(self, b):
        return self.blocks[b]["t"].get("ln", self.lo)

    def reach(self, starts, removed=(), removed_edges=()):
        """set of blocks reachable from `starts` (inclusive) avoiding removed
        blocks (a removed start is not expanded) and removed edges"""
        removed = set(removed)
        removed_edges = set(removed_edges)
        seen = set()
        dq = deque()
        for s in starts:
            if s not in seen and s not in removed:
                seen.add(s)
                dq.append(s)
        while dq:
            a = dq.popleft()
            for s in self.succ[a]:
                if s in seen or s in removed or (a, s) in removed_edges:
                    continue
                seen.add(s)
                dq.append(s)
        return seen

    @property
    def live(self):
        if self._reach0 is None:
            self._reach0 = self.reach([0])
        return self._reach0

    def returns(self):
        return [b for b in self.live if self.term(b)["k"] == "ret"]

    def dom(self):
        """immediate dominators over live blocks (Cooper-Harvey-Kennedy)"""
        if self._dom is not None:
            return self._dom
        order = []
        seen = set()
        stack = [(0, iter(self.succ[0]))]
        seen.add(0)
        while stack:
            n, it = stack[-1]
            adv = False
            for s in it:
                if s not in seen:
                    seen.add(s)
                    stack.append((s, iter(self.succ[s])))
                    adv = True
                    break
            if not adv:
                order.append(n)
                stack.pop()
        rpo = list(reversed(order))
        idx = {n: i for i, n in enumerate(rpo)}
        idom = {0: 0}
        changed = True
        while changed:
            changed = False
            for n in rpo[1:]:
                new = None
                for p in self.pred[n]:
                    if p in idom:
                        if new is None:
                            new = p
                        else:
                            a, b = p, new
                            while a != b:
                                while idx[a] > idx[b]:
                                    a = idom[a]
                                while idx[b] > idx[a]:
                                    b = idom[b]
                            new = a
                if new is not None and idom.get(n) != new:
                    idom[n] = new
                    changed = True
        self._dom = idom
        return idom

    def dominates(self, a, b):
        idom = self.dom()
        if b not in idom:
            return False
        while True:
            if a == b:
                return True
            if b == 0:
                return False
            b = idom[b]

    def dominators(self, b):
        idom = self.dom()
        out = []
        if b not in idom:
            return out
        while True:
            out.append(b)
            if b == 0:
                return out
            b = idom[b]

    def edge_dominates(self, a, s, site):
        """every path entry -> site uses edge a->s"""
        if site not in self.live:
            return False
        return site not in self.reach([0], removed_edges=[(a, s)])

    def must_pass(self, starts, ends, through):
        """every path from a start block to an end block contains a block of
        `through` (start/end blocks themselves count). Returns (ok, witness)"""
        through = set(through)
        ends = set(ends)
        r = self.reach([s for s in starts], removed=through)
        bad = sorted(r & ends)
        if not bad:
            return True, None
        return False, self.path_between(starts, bad[0], removed=through)

    def must_pass_after(self, st, ends, through):
        """every path that continues *after* the statements of block `st`
        (its terminator included) to an end block passes `through`"""
        through = set(through)
        if st in through:
            return True, None
        if st in set(ends):
            return False, [st]
        ok, wit = self.must_pass(self.succ[st], ends, through)
        return ok, ([st] + wit if wit else wit)

    def path_between(self, starts, end, removed=(), removed_edges=()):
        removed = set(removed)
        removed_edges = set(removed_edges)
        prev = {}
        dq = deque()
        for s in starts:
            if s not in removed:
                prev[s] = None
                dq.append(s)
        while dq:
            a = dq.popleft()
            if a == end:
                p = []
                while a is not None:
                    p.append(a)
                    a = prev[a]
                return list(reversed(p))
            for s in self.succ[a]:
                if s in prev or s in removed or (a, s) in removed_edges:
                    continue
                prev[s] = a
                dq.append(s)
        return None

    def path_lines(self, p):
        if not p:
            return []
        out = []
        for b in p:
            ln = self.line(b)
            if not out or out[-1] != ln:
                out.append(ln)
        return out

    # ------------------------------------------------------ def-use ------
    def defs(self):
        """local -> list of ('=', bb, i, rv) | ('call', bb, term) | ('yield', bb)
        for whole-local definitions; partial (projected) writes under key
        ('p', local)"""
        if self._defs is not None:
            return self._defs
        d = defaultdict(list)
        for bi, b in enumerate(self.blocks):
            if bi not in self.live:
                continue
            for si, s in enumerate(b["s"]):
                if s["k"] == "=":
                    p = s["p"]
                    if len(p) == 1:
                        d[p[0]].append(("=", bi, si, s["rv"]))
                    else:
                        d[("p", p[0])].append(("=", bi, si, s))
            t = b["t"]
            if t["k"] in ("call", "yield") and "dest" in t:
                p = t["dest"]
                if len(p) == 1:
                    d[p[0]].append((t["k"], bi, t))
                else:
                    d[("p", p[0])].append((t["k"], bi, t))
        self._defs = d
        return d

    def mut_borrowed(self):
        if getattr(self, "_mb", None) is None:
            mb = set()
            for bi in self.live:
                for st in self.stmts(bi):
                    if st["k"] == "=" and st["rv"]["k"] in ("ref", "rawptr") and st["rv"].get("mut") and len(st["rv"]["p"]) == 1:
                        mb.add(st["rv"]["p"][0])
            self._mb = mb
        return self._mb

    def lname(self, l):
        n = self.locals[l].get("n")
        if ANON and n is not None:
            # rename-robustness test mode: every user-chosen local/parameter name is replaced by a
            # positional one, as if the source had been renamed throughout (./check --anon)
            return "_%s%d" % ("a" if self.locals[l]["k"] == "arg" else "v", l)
        return n

    def lty(self, l):
        return self.locals[l]["ty"]

    # ------------------------------------------------- expressions -------
    def op_expr(self, op, depth=10):
        if "const" in op:
            c = op["const"]
            iv = c.get("int")
            if iv is None and c.get("tyconst"):
                # pattern-type / valtree constants print as `100_u16 is 1..`
                m = re.match(r"^(-?\d+)_[iu](\d+|size)", c["tyconst"])
                if m:
                    iv = int(m.group(1))
            return ("const", norm(c.get("def") or c.get("fn")), iv, c.get("str"), c["ty"])
        p = op.get("copy") or op.get("move")
        if p is None:
            return ("other", str(op))
        return self.place_expr(p, depth)

    def place_expr(self, place, depth=10):
        base = self.local_expr(place[0], depth)
        projs = tuple(x for x in place[1:] if x != "*")
        if not projs:
            return base
        if base[0] == "place":
            return ("place", base[1], base[2] + projs)
        return ("place", base, projs)

    def local_expr(self, l, depth=10):
        key = (l, depth)
        if key in self._ecache:
            return self._ecache[key]
        self._ecache[key] = ("var", l, self.lname(l))  # cycle guard
        info = self.locals[l]
        if info["k"] == "arg":
            r = ("arg", l, self.lname(l))
        elif info["k"] == "var" and info["ty"] in _PRIMS and l in self.mut_borrowed():
            # a scalar user variable whose address is taken mutably (captured by a
            # closure, passed as &mut) can change behind the single visible
            # definition: never inline its initialiser
            r = ("var", l, self.lname(l))
        else:
            ds = self.defs().get(l, [])
            if depth <= 0 or not ds:
                r = ("var", l, self.lname(l))
            elif len(ds) == 1:
                r = self.def_expr(ds[0], depth - 1)
            else:
                r = ("phi", l, self.lname(l), tuple(self.def_expr(d, min(depth - 1, 4)) for d in ds[:8]))
        self._ecache[key] = r
        return r

    def def_expr(self, d, depth):
        if d[0] == "=":
            return self.rv_expr(d[3], depth, d[1])
        if d[0] == "call":
            t = d[2]
            return (
                "call",
                cname(t),
                tuple(self.op_expr(a, depth) for a in t["args"]),
                d[1],
            )
        return ("yield", d[1])

    def rv_expr(self, rv, depth, bb=None):
        k = rv["k"]
        if k == "use":
            return self.op_expr(rv["ops"][0], depth)
        if k in ("ref", "rawptr"):
            return self.place_expr(rv["p"], depth)
        if k == "cast":
            return ("cast", self.op_expr(rv["ops"][0], depth), rv["to"], rv["from"])
        if k == "bin":
            return ("bin", rv["op"], self.op_expr(rv["ops"][0], depth), self.op_expr(rv["ops"][1], depth), rv.get("oty"))
        if k == "un":
            return ("un", rv["op"], self.op_expr(rv["ops"][0], depth))
        if k == "discr":
            en = rv.get("enum")
            return ("discr", self.place_expr(rv["p"], depth), en["adt"] if en else None)
        if k == "agg":
            name = rv.get("adt") or rv.get("def") or rv.get("ak")
            if rv.get("variant"):
                name = name + "::" + rv["variant"]
            return ("agg", rv["ak"], norm(name), tuple(self.op_expr(o, depth) for o in rv["ops"]), tuple(rv.get("fields", ())))
        if k == "tlref":
            return ("const", norm(rv["def"]), None, None, "tl")
        if k == "repeat":
            return ("repeat", self.op_expr(rv["ops"][0], depth))
        return ("other", k)

    # ------------------------------------------------ branches -----------
    def branch(self, b):
        """for a switch block: (cond_expr, [(label, target)]) where label is
        True/False for bool switches, variant name for discriminant switches,
        int for integer switches, 'otherwise' for the default edge"""
        t = self.term(b)
        if t["k"] != "switch":
            return None
        e = self.op_expr(t["d"])
        edges = []
        enum = None
        # find discriminant source for variant names
        d = t["d"]
        p = d.get("copy") or d.get("move")
        if p is not None and len(p) == 1:
            for df in self.defs().get(p[0], []):
                if df[0] == "=" and df[3]["k"] == "discr" and df[3].get("enum"):
                    enum = {v[0]: v[1] for v in df[3]["enum"]["variants"]}
        if t["dty"] == "bool":
            for v, tb in t["ts"]:
                edges.append((bool(v), tb))
            rest = {True, False} - {x[0] for x in edges}
            lab = rest.pop() if len(rest) == 1 else "otherwise"
            edges.append((lab, t["o"]))
        elif enum is not None:
            seen = set()
            for v, tb in t["ts"]:
                edges.append((enum.get(v, v), tb))
                seen.add(v)
            rest = [n for v, n in enum.items() if v not in seen]
            ot = t["o"]
            # an `otherwise` that is unreachable carries no label
            if self.term(ot)["k"] != "unreachable" or self.stmts(ot):
                lab = rest[0] if len(rest) == 1 else ("otherwise", tuple(rest))
                edges.append((lab, ot))
        else:
            for v, tb in t["ts"]:
                edges.append((v, tb))
            edges.append(("otherwise", t["o"]))
        return e, edges

    # ---- equivalent spellings of one test ---------------------------------
    # A rule that asks for `x.is_empty()` must also accept `x.len() == 0`, and one that asks for
    # `opt.is_none()` must accept `if let None = opt` / `match opt { None => .. }` (and vice versa):
    # these are the rewrites a behaviour-preserving edit makes. `synonyms` returns the other
    # spellings of (condition, edge label); guards() lists them next to the literal form and
    # rules.edges_where() accepts an edge if any spelling satisfies the predicate.
    def synonyms(self, c, lab):
        out = []
        if isinstance(lab, bool):
            e, truth = c, lab
            while isinstance(e, tuple) and e[0] == "un" and e[1] == "Not":
                e, truth = e[2], (not truth)
            # len(v) compared with 0 / 1  ->  is_empty(v)
            if isinstance(e, tuple) and e[0] == "bin" and e[1] in ("Eq", "Ne", "Lt", "Le", "Gt", "Ge"):
                op, a, b = e[1], _uncast(e[2]), _uncast(e[3])
                if op in ("Gt", "Ge"):  # a > b  ==  b < a
                    op, a, b = ("Lt" if op == "Gt" else "Le"), b, a
                if op == "Ne":
                    op, truth2 = "Eq", (not truth)
                else:
                    truth2 = truth
                def is_len(x):
                    return isinstance(x, tuple) and x[0] == "call" and (x[1] or "").endswith("::len") and len(x[2]) == 1
                def k(x):
                    return x[2] if isinstance(x, tuple) and x[0] == "const" and isinstance(x[2], int) else None
                emp = None  # truth value of "v is empty" established by this edge
                v = None
                if op == "Eq" and is_len(a) and k(b) == 0:
                    v, emp = a, truth2
                elif op == "Eq" and is_len(b) and k(a) == 0:
                    v, emp = b, truth2
                elif op == "Lt" and k(a) == 0 and is_len(b):      # 0 < len
                    v, emp = b, (not truth2)
                elif op == "Le" and is_len(a) and k(b) == 0:      # len <= 0
                    v, emp = a, truth2
                elif op == "Lt" and is_len(a) and k(b) == 1:      # len < 1
                    v, emp = a, truth2
                elif op == "Le" and k(a) == 1 and is_len(b):      # 1 <= len
                    v, emp = b, (not truth2)
                if v is not None:
                    out.append((("call", v[1][: -len("len")] + "is_empty", v[2], None), emp))
            # is_empty(v)  ->  len(v) == 0
            if isinstance(e, tuple) and e[0] == "call" and (e[1] or "").endswith("::is_empty") and len(e[2]) == 1:
                out.append((("bin", "Eq", ("call", e[1][: -len("is_empty")] + "len", e[2], None), ("const", None, 0, None, "usize")), truth))
            # Option::is_some / is_none  ->  discriminant test
            if isinstance(e, tuple) and e[0] == "call" and rx(r"^core::option::Option(<T>)?::(is_some|is_none)$").search(e[1] or "") and len(e[2]) == 1:
                some = (e[1].endswith("is_some")) == truth
                out.append((("discr", e[2][0], "core::option::Option"), "Some" if some else "None"))
            if isinstance(e, tuple) and e[0] == "call" and rx(r"^core::result::Result(<T, E>)?::(is_ok|is_err)$").search(e[1] or "") and len(e[2]) == 1:
                okv = (e[1].endswith("is_ok")) == truth
                out.append((("discr", e[2][0], "core::result::Result"), "Ok" if okv else "Err"))
        elif isinstance(lab, str) and isinstance(c, tuple) and c[0] == "discr":
            if c[2] == "core::option::Option" and lab in ("Some", "None"):
                out.append((("call", "core::option::Option::is_some", (c[1],), None), lab == "Some"))
                out.append((("call", "core::option::Option::is_none", (c[1],), None), lab == "None"))
            if c[2] == "core::result::Result" and lab in ("Ok", "Err"):
                out.append((("call", "core::result::Result::is_ok", (c[1],), None), lab == "Ok"))
        return out

    def guards(self, site, _depth=0):
        """facts established on every path to `site`: list of
        (cond_expr, label, branch_block)"""
        out = []
        for a in self.dominators(site):
            br = self.branch(a)
            if br is None:
                continue
            e, edges = br
            by_t = defaultdict(list)
            for lab, tb in edges:
                by_t[tb].append(lab)
            for tb, labs in by_t.items():
                if self.edge_dominates(a, tb, site) and a != site:
                    for lab in labs:
                        out.append((e, lab, a))
                        for e2, l2 in self.synonyms(e, lab):
                            out.append((e2, l2, a))
                    if len(labs) > 1:
                        out.append((e, ("oneof", tuple(labs)), a))
                    # `matches!(..)` / `let b = <match>` : a bool temp assigned
                    # constants in the arms and then tested. Taking the edge
                    # `lab` means control came through the (unique) arm that
                    # stored that constant, so that arm's guards hold too.
                    if _depth < 3 and e[0] == "phi" and len(labs) == 1 and isinstance(labs[0], bool):
                        want = 1 if labs[0] else 0
                        arms = [d for d in self.defs().get(e[1], []) if d[0] == "=" and d[3]["k"] == "use" and "const" in d[3]["ops"][0] and d[3]["ops"][0]["const"].get("int") == want]
                        alld = self.defs().get(e[1], [])
                        if len(arms) == 1 and all(d[0] == "=" and d[3]["k"] == "use" and "const" in d[3]["ops"][0] for d in alld):
                            out.extend(self.guards(arms[0][1], _depth + 1))
        return out

    # ------------------------------------ correlated tests (dead edges) --
    def _roots(self, e):
        """locals an expression reads from (arg / var / phi roots)"""
        out = set()
        for x in walk(e):
            if x[0] in ("arg", "var", "phi"):
                out.add(x[1])
        return out

    def _region_stable(self, start, end, roots):
        """no write to / mutable borrow of / &mut hand-off of any root local
        on any path from block `start` to block `end`"""
        fwd = self.reach([start])
        # backward reach from end
        back = set([end])
        dq = deque([end])
        while dq:
            x = dq.popleft()
            for p in self.pred[x]:
                if p not in back:
                    back.add(p)
                    dq.append(p)
        region = (fwd & back) - {end}
        for b in region:
            for s in self.stmts(b):
                if s["k"] != "=":
                    continue
                if s["p"][0] in roots:
                    return False
                rv = s["rv"]
                if rv["k"] in ("ref", "rawptr") and rv.get("mut") and rv["p"][0] in roots:
                    return False
            t = self.term(b)
            if t["k"] == "call":
                for a in t["args"]:
                    pl = a.get("move") or a.get("copy")
                    if pl and pl[0] in roots and self.lty(pl[0]).startswith("&mut"):
                        return False
                if t.get("dest") and t["dest"][0] in roots:
                    return False
        return True

    def dead_edges(self):
        """edges (a, s) of bool switches that contradict a comparison already
        established on a dominating edge, with the operands untouched in
        between — the only path sensitivity the engine uses"""
        if getattr(self, "_dead", None) is not None:
            return self._dead
        from .rules import norm_cmp  # late import
        dead = set()
        for b2 in sorted(self.live):
            br = self.branch(b2)
            if br is None:
                continue
            e2, edges2 = br
            c2 = norm_cmp(e2, True)
            if c2 is None:
                continue
            for e1, lab1, a in self.guards(b2):
                if not isinstance(lab1, bool):
                    continue
                c1 = norm_cmp(e1, lab1)
                if c1 is None or c1[:3] != c2[:3]:
                    continue
                roots = self._roots(c1[1]) | self._roots(c1[2])
                if any(x[0] in ("call", "yield") for x in walk(c1[1])) or any(x[0] in ("call", "yield") for x in walk(c1[2])):
                    continue
                # which successor of `a` dominates b2?
                starts = [tb for lab, tb in self.branch(a)[1] if lab == lab1]
                if not starts or not self._region_stable(starts[0], b2, roots):
                    continue
                truth = c1[3]  # established truth of the canonical comparison
                for lab2, tb2 in edges2:
                    if not isinstance(lab2, bool):
                        continue
                    t2 = norm_cmp(e2, lab2)[3]
                    if t2 != truth:
                        dead.add((b2, tb2))
        self._dead = dead
        return dead

    # --------------------------------------------------- sites -----------
    def calls(self, pat=None):
        for b in sorted(self.live):
            t = self.term(b)
            if t["k"] == "call" and (pat is None or is_call(t, pat)):
                yield b, t

    def assigns(self):
        for b in sorted(self.live):
            for i, s in enumerate(self.stmts(b)):
                if s["k"] == "=":
                    yield b, i, s

    def field_writes(self, field_pat):
        """(bb, stmt) assignments whose destination place has a field
        projection matching field_pat (regex on '.Adt.field' string)"""
        rx = re.compile(field_pat)
        for b, i, s in self.assigns():
            for pr in s["p"][1:]:
                if isinstance(pr, str) and pr.startswith(".") and rx.search(pr):
                    yield b, i, s
                    break

    def ret_exprs(self):
        """expressions assigned to _0 with their blocks"""
        out = []
        for d in self.defs().get(0, []):
            out.append((d[1], self.def_expr(d, 8)))
        return out


def cname(t):
    f = t.get("fn", {})
    return norm(f.get("res") or f.get("decl") or ("<indirect:%s>" % f.get("dyn", "fnptr")))


def cnames(t):
    f = t.get("fn", {})
    out = []
    for k in ("res", "decl"):
        if f.get(k):
            out.append(norm(f[k]))
    if f.get("declargs"):
        out.append(f["declargs"])
    if f.get("resargs"):
        out.append(f["resargs"])
    return out


_RX = {}


def rx(p):
    r = _RX.get(p)
    if r is None:
        r = _RX[p] = re.compile(p)
    return r


def is_call(t, pat):
    if t.get("k") != "call":
        return False
    r = rx(pat)
    return any(r.search(n) for n in cnames(t))


def walk(e):
    """all sub-expressions (pre-order)"""
    stack = [e]
    while stack:
        x = stack.pop()
        if not isinstance(x, tuple):
            continue
        yield x
        for y in x[1:]:
            if isinstance(y, tuple):
                if y and isinstance(y[0], str) and y[0] in _KINDS:
                    stack.append(y)
                else:
                    for z in y:
                        if isinstance(z, tuple):
                            stack.append(z)


_KINDS = {"const", "arg", "var", "phi", "place", "call", "yield", "cast", "bin", "un", "discr", "agg", "repeat", "other"}


def e_calls(e, pat=None):
    r = rx(pat) if pat else None
    return [x for x in walk(e) if x[0] == "call" and (r is None or r.search(x[1] or ""))]


def e_fields(e):
    """all field projection strings mentioned"""
    out = []
    for x in walk(e):
        if x[0] == "place":
            out.extend(p for p in x[2] if isinstance(p, str) and p.startswith("."))
    return out


def e_has_field(e, pat):
    r = rx(pat)
    return any(r.search(f) for f in e_fields(e))


def e_consts(e):
    return [x for x in walk(e) if x[0] == "const"]


def e_has_const(e, pat):
    r = rx(pat)
    for c in e_consts(e):
        if c[1] and r.search(c[1]):
            return True
        if c[3] is not None and r.search(c[3]):
            return True
    return False


def e_bins(e, ops=None):
    return [x for x in walk(e) if x[0] == "bin" and (ops is None or x[1] in ops)]


def e_roots(e):
    """leaf atoms: args, vars, consts, calls"""
    return [x for x in walk(e) if x[0] in ("arg", "var", "const", "call", "yield", "phi")]


def short(e, depth=4):
    """compact rendering for reports"""
    if not isinstance(e, tuple):
        return str(e)
    k = e[0]
    if depth <= 0:
        return "…"
    if k == "const":
        if e[3] is not None:
            return repr(e[3])
        if e[1]:
            return e[1].split("::")[-1] if "::" in e[1] else e[1]
        return str(e[2])
    if k == "arg":
        return e[2] or "_%d" % e[1]
    if k == "var":
        return e[2] or "_%d" % e[1]
    if k == "phi":
        return "φ(%s)" % (e[2] or "_%d" % e[1])
    if k == "place":
        return short(e[1], depth - 1) + "".join("." + p.rsplit(".", 1)[-1] if p.startswith(".") else p for p in e[2])
    if k == "call":
        nm = (e[1] or "?").split("::")
        return "%s(%s)" % ("::".join(nm[-2:]), ", ".join(short(a, depth - 1) for a in e[2]))
    if k == "bin":
        return "(%s %s %s)" % (short(e[2], depth - 1), e[1], short(e[3], depth - 1))
    if k == "un":
        return "%s(%s)" % (e[1], short(e[2], depth - 1))
    if k == "cast":
        return "(%s as %s)" % (short(e[1], depth - 1), e[2])
    if k == "discr":
        return "discr(%s)" % short(e[1], depth - 1)
    if k == "agg":
        return "%s{%s}" % ((e[2] or "").split("::")[-1], ", ".join(short(a, depth - 1) for a in e[3]))
    return k


# ----------------------------------------------------------- program ------


class Prog:
    def __init__(self, factdir, override=None):
        self.factdir = factdir
        self.bodies = {}
        self.nbodies = {}  # normalised path -> [Body]
        self.adts = {}
        self.impls = []
        self.consts = {}
        self.manifests = {}
        # several compilations of one crate (host/target): keep the one with
        # the largest feature set. `override`: a second fact dir (a cfg variant
        # of some crates, thorough tier) whose crates replace those of factdir.
        def pick(d):
            best = {}
            for f in sorted(glob.glob(os.path.join(d, "*.jsonl"))):
                man = None
                with open(f) as fh:
                    for line in fh:
                        if line.startswith('{"k":"manifest"'):
                            man = json.loads(line)
                if man is None:
                    continue
                c = man["crate"]
                if c not in best or len(man["features"]) > len(best[c][1]["features"]):
                    best[c] = (f, man)
            return best

        best = pick(factdir)
        self.overridden = []
        if override:
            for c, v in pick(override).items():
                best[c] = v
                self.overridden.append(c)
        for c, (f, man) in sorted(best.items()):
            self.manifests[c] = man
            with open(f) as fh:
                for line in fh:
                    if ANON and ".^" in line:
                        line = _UPVAR_NAME.sub(r".^\1", line)
                    d = json.loads(line)
                    k = d["k"]
                    if k == "body":
                        b = Body(d)
                        p = b.path
                        n = 2
                        while p in self.bodies:
                            p = "%s#%d" % (b.path, n)
                            n += 1
                        self.bodies[p] = b
                        self.nbodies.setdefault(b.npath, []).append(b)
                    elif k == "adt":
                        self.adts[d["path"]] = d
                    elif k == "impl":
                        self.impls.append(d)
                    elif k == "const":
                        self.consts[d["path"]] = d
        for b in self.bodies.values():
            if b.parent and b.parent in self.bodies:
                self.bodies[b.parent].children.append(b)
        self._callers = None
        self._reach_cache = {}

    # ------------------------------------------------------------------
    def find(self, pat, crate=None):
        r = rx(pat)
        return [b for p, b in sorted(self.bodies.items()) if r.search(b.npath) and (crate is None or b.crate == crate)]

    def one(self, pat, crate=None):
        bs = self.find(pat, crate)
        if len(bs) != 1:
            raise AnchorLost("expected exactly one body matching %r, found %d: %s" % (pat, len(bs), [b.path for b in bs][:6]))
        return bs[0]

    def maybe(self, pat, crate=None):
        bs = self.find(pat, crate)
        return bs[0] if len(bs) == 1 else None

    def in_file(self, suffix):
        return [b for p, b in sorted(self.bodies.items()) if b.file.endswith(suffix)]

    def callers(self, pat):
        """(body, bb, term) of all call sites whose callee matches"""
        out = []
        for p, b in sorted(self.bodies.items()):
            for bb, t in b.calls(pat):
                out.append((b, bb, t))
        return out

    def resolve(self, t):
        """local Body for a call terminator, if the callee is in the facts"""
        f = t.get("fn", {})
        for k in ("res", "decl"):
            n = norm(f.get(k))
            if n and n in self.nbodies and len(self.nbodies[n]) == 1:
                return self.nbodies[n][0]
        return None

    def upvar(self, closure_body, proj):
        """resolve a captured-variable projection (`.^i:name`) of a closure body to
        (parent body, expression of the captured operand in the parent); None if unknown"""
        m = re.match(r"^\.\^(\d+)", proj or "")
        if not m or not closure_body.parent or closure_body.parent not in self.bodies:
            return None
        idx = int(m.group(1))
        par = self.bodies[closure_body.parent]
        for bb, i, s in par.assigns():
            rv = s["rv"]
            if rv["k"] == "agg" and rv.get("ak") in ("closure", "coroutine") and norm(rv.get("def")) == closure_body.npath and idx < len(rv["ops"]):
                return par, par.op_expr(rv["ops"][idx], 6)
        return None

    def with_closures(self, body):
        out = [body]
        for c in body.children:
            out.extend(self.with_closures(c))
        return out

    def fn_reaches(self, body, pat, depth=3):
        """does `body` (or a closure defined in it, or a local callee up to
        `depth`) contain a call matching pat?"""
        key = (body.path, pat, depth)
        if key in self._reach_cache:
            return self._reach_cache[key]
        self._reach_cache[key] = False
        res = False
        for b in self.with_closures(body):
            for bb, t in b.calls():
                if is_call(t, pat):
                    res = True
                    break
                if depth > 0:
                    cb = self.resolve(t)
                    if cb is not None and cb.path != body.path and self.fn_reaches(cb, pat, depth - 1):
                        res = True
                        break
            if res:
                break
        self._reach_cache[key] = res
        return res

    def blocks_reaching(self, body, pat, depth=3):
        """blocks of `body` whose call terminator matches pat or resolves to a
        local body that reaches pat; plus blocks that create a closure whose
        body reaches pat"""
        out = set()
        for bb, t in body.calls():
            if is_call(t, pat):
                out.add(bb)
            elif depth > 0:
                cb = self.resolve(t)
                if cb is not None and cb.path != body.path and self.fn_reaches(cb, pat, depth - 1):
                    out.add(bb)
        for bb, i, s in body.assigns():
            rv = s["rv"]
            if rv["k"] == "agg" and rv.get("ak") in ("closure", "coroutine", "coroutine_closure"):
                cb = self.bodies.get(rv.get("def"))
                if cb is not None and self.fn_reaches(cb, pat, depth):
                    out.add(bb)
        return out

    def field_effects(self, field_pat, crates=None):
        """all (body, bb, kind, detail) touching a field mutably:
        kind in write | mutref | call(&mut field receiver)"""
        r = rx(field_pat)
        out = []
        for p, b in sorted(self.bodies.items()):
            if crates and b.crate not in crates:
                continue
            for bb, i, s in b.assigns():
                if any(isinstance(x, str) and x.startswith(".") and r.search(x) for x in s["p"][1:]):
                    out.append((b, bb, "write", s))
                rv = s["rv"]
                if rv["k"] in ("ref", "rawptr") and rv.get("mut"):
                    pl = rv["p"]
                    if any(isinstance(x, str) and x.startswith(".") and r.search(x) for x in pl[1:]):
                        out.append((b, bb, "mutref", s))
        return out


class AnchorLost(Exception):
    pass
