"""Controls: miniature good/bad programs for each rule template, run through
the same extractor and the same query code on every invocation. Filled in
below by `run_or_die`; a failure means the checker itself is broken (exit 2,
never a VIOLATION)."""
LAST = None


def run_or_die():
    global LAST
    LAST = {"status": "not-built-yet"}
