"""Controls: miniature good/bad programs (crate /verif/controls), compiled
through the same `factgen` driver and queried with the same engine primitives
the property rules use, on every invocation of ./check. Each primitive must
accept the good twin and reject the bad twin. A failure means the checker
itself (extractor, CFG, dominators, slicing, labels, dead-edge pruning, byte
tables) is broken: exit 2, never a VIOLATION.

The control facts are cached under .cache/controls-<hash(controls source,
factgen binary, avlint engine sources)>; extraction takes ~1 s."""
import hashlib
import os
import shutil
import subprocess
import sys
import tempfile

LAST = None
VERIF = os.path.dirname(os.path.dirname(os.path.abspath(__file__)))
CACHE = os.path.join(VERIF, ".cache")
FACTGEN = os.path.join(VERIF, "factgen", "target", "release", "factgen")
SRC = os.path.join(VERIF, "controls")


def _hash():
    h = hashlib.sha256()
    for f in (os.path.join(SRC, "src", "lib.rs"), os.path.join(SRC, "Cargo.toml"), FACTGEN):
        with open(f, "rb") as fh:
            h.update(hashlib.sha256(fh.read()).digest())
    return h.hexdigest()[:16]


def _facts():
    os.makedirs(CACHE, exist_ok=True)
    dest = os.path.join(CACHE, "controls-" + _hash())
    if os.path.isdir(dest) and os.listdir(dest):
        return dest
    sysroot = subprocess.check_output(["rustc", "+nightly", "--print", "sysroot"], text=True).strip()
    tgt = tempfile.mkdtemp(prefix="avlint-ctl-target-")
    out = tempfile.mkdtemp(prefix="avlint-ctl-facts-")
    env = dict(os.environ)
    env.update(
        LD_LIBRARY_PATH=os.path.join(sysroot, "lib"),
        RUSTFLAGS="-Zmir-opt-level=0 -Awarnings",
        RUSTC_WORKSPACE_WRAPPER=FACTGEN,
        FACTGEN_OUT=out,
        CARGO_TARGET_DIR=tgt,
        CARGO_NET_OFFLINE="true",
    )
    env.pop("RUSTC_WRAPPER", None)
    env.pop("FACTGEN_ONLY", None)
    try:
        p = subprocess.run(["cargo", "+nightly", "check", "--offline", "--lib"], cwd=SRC, env=env, stdout=subprocess.PIPE, stderr=subprocess.STDOUT, text=True)
        if p.returncode != 0 or not os.listdir(out):
            print("controls: extraction failed\n" + p.stdout[-2000:], file=sys.stderr)
            sys.exit(2)
        tmp = dest + ".tmp%d" % os.getpid()
        shutil.rmtree(tmp, ignore_errors=True)
        shutil.copytree(out, tmp)
        try:
            os.rename(tmp, dest)
        except OSError:
            shutil.rmtree(tmp, ignore_errors=True)  # another process won the race
        for d in os.listdir(CACHE):
            if d.startswith("controls-") and os.path.join(CACHE, d) != dest and ".tmp" not in d:
                shutil.rmtree(os.path.join(CACHE, d), ignore_errors=True)
        return dest
    finally:
        shutil.rmtree(tgt, ignore_errors=True)
        shutil.rmtree(out, ignore_errors=True)


def _controls(p):
    """yield (name, template, good_verdict, bad_verdict): good must be True, bad must be False"""
    from .core import e_has_field, e_calls, is_call, short, walk
    from .core import e_roots as e_roots_
    from . import rules as R
    from . import bytetab

    def calls(b, pat):
        return [bb for bb, t in b.calls(pat)]

    # T2 must-pass-through -------------------------------------------------
    def wake_after_write(name):
        b = p.one(r"Chan::%s$" % name)
        w = calls(b, r"extend_from_slice")
        assert len(w) == 1
        ok, wit = b.must_pass_after(w[0], b.returns(), calls(b, r"Chan::wake$"))
        return ok

    yield ("must-pass-after", "T2", wake_after_write("feed_good"), wake_after_write("feed_bad"))

    # T1 guarded site (set of edges; short-circuit) --------------------------
    limit = R.cmp_pred("Le", lambda e: e_has_field(e, r"\.len$"), lambda e: e_has_field(e, r"\.limit$"), True)

    def append_guarded(name):
        b = p.one(r"Chan::%s$" % name)
        s = calls(b, r"extend_from_slice")
        assert len(s) == 1
        return R.guarded_by(b, s[0], limit)[0]

    yield ("guarded-site", "T1", append_guarded("acc_good"), append_guarded("acc_bad"))
    yield ("guarded-site-short-circuit-or", "T1", append_guarded("acc_or_good"), append_guarded("acc_bad"))

    # correlated tests (dead edges) ------------------------------------------
    def pending_needs_not_eof(name):
        b = p.one(r"Chan::%s$" % name)
        pend = [x[0] for x in R.agg_sites(b, r"Poll::Pending$")]
        assert pend, "no Pending aggregate"
        not_eof = lambda c, lab: isinstance(lab, bool) and R.strip_not(c, lab)[1] is False and e_has_field(R.strip_not(c, lab)[0], r"\.eof$")
        return all(R.guarded_by(b, s, not_eof)[0] for s in pend)

    yield ("correlated-tests", "T1+dead-edges", pending_needs_not_eof("read_len_good"), pending_needs_not_eof("read_len_bad"))

    # assumption-conditioned reachability with matches! threading --------------
    def no_dispatch_when_closing(name):
        b = p.one(r"Chan::%s$" % name)

        def not_closing(c, lab):  # edges impossible when state == Closing
            if c[0] == "discr" and e_has_field(c, r"\.state$"):
                return not R.label_may_be(lab, "Closing")
            return False

        r, _ = R.reach_under(b, [not_closing])
        return not (set(calls(b, r"Chan::dispatch$")) & r)

    yield ("reach-under-assumption", "T3", no_dispatch_when_closing("poll_good"), no_dispatch_when_closing("poll_bad"))

    # &mut-borrowed scalars stay opaque (bad twin = what constant folding would claim)
    def sees_through(name):
        b = p.one(r"Chan::%s$" % name)
        site = calls(b, r"Chan::dispatch$")[0]
        g = b.guards(site)
        assert g, "guard of the dispatch site lost"
        return any(e[0] == "bin" and e[2][0] == "const" and e[3][0] == "const" for e, lab, a in g)

    # the slicer may inline `let n = 0` (foldable) but never a scalar that was lent out by &mut (opaque)
    yield ("mut-borrowed-opaque", "slicer", sees_through("foldable") and not sees_through("opaque"), sees_through("opaque"))

    # equivalent spellings: `len() == 0` is an is_empty() test, `if let None = o` is an is_none() test
    def nonempty_guard(name):
        b = p.one(r"Chan::%s$" % name)
        s_ = calls(b, r"extend_from_slice")[0]
        pred = lambda c_, lab: isinstance(lab, bool) and c_[0] == "call" and (c_[1] or "").endswith("::is_empty") and lab is False
        return R.guarded_by(b, s_, pred)[0] and any(pred(c_, lab) for c_, lab, a in b.guards(s_))

    yield ("synonym-len-eq-zero", "spellings", nonempty_guard("syn_len_good"), nonempty_guard("syn_len_bad"))

    def some_guard(name):
        b = p.one(r"Chan::%s$" % name)
        s_ = calls(b, r"Chan::dispatch$")[0]
        first_arg = lambda e_: e_[0] == "arg" and e_[1] == 2
        pred = lambda c_, lab: isinstance(lab, bool) and c_[0] == "call" and (c_[1] or "").endswith("::is_some") and lab is True and first_arg(c_[2][0])
        return R.guarded_by(b, s_, pred)[0] and any(pred(c_, lab) for c_, lab, a in b.guards(s_))

    yield ("synonym-if-let-none", "spellings", some_guard("syn_opt_good"), some_guard("syn_opt_bad"))

    # captured variables: `.^i:name` of the closure resolves, through the closure aggregate, to the parent's local
    par = p.one(r"Chan::capture$")
    clo = [c_ for c_ in p.with_closures(par) if c_ is not par]
    assert clo, "closure body of Chan::capture lost"
    got = {}
    for bb, i, s in clo[0].assigns():
        for x in s["p"][1:]:
            if isinstance(x, str) and x.startswith(".^"):
                r = p.upvar(clo[0], x)
                if r:
                    got["written"] = [par.lty(y[1]) for y in e_roots_(r[1]) if y[0] in ("var", "phi")]
    for a in clo[0].live:
        br = clo[0].branch(a)
        if br:
            for y in walk(br[0]):
                if y[0] == "place":
                    for x in y[2]:
                        if isinstance(x, str) and x.startswith(".^"):
                            r = p.upvar(clo[0], x)
                            if r:
                                got["tested"] = R.e_has_field(r[1], r"\.limit$") or [par.lty(z[1]) for z in e_roots_(r[1])]
    yield ("upvar-resolution", "closures", got.get("written") == ["bool"] and got.get("tested") is True, got.get("written") == ["usize"])

    # T4/T9 reset completeness ---------------------------------------------------
    adt = [a for n, a in p.adts.items() if n.endswith("::Chan")]
    assert adt, "ADT table lost Chan"
    fields = [f["n"] for f in _adt_fields(adt[0])]

    def resets_all(name):
        b = p.one(r"Chan::%s$" % name)
        touched = set()
        for bb, i, s in b.assigns():
            for x in s["p"][1:]:
                if isinstance(x, str) and x.startswith("."):
                    touched.add(x.split(".")[-1])
        for bb, t in b.calls(None):
            e0 = b.op_expr(t["args"][0], 4) if t.get("args") else None
            lf = R.last_field(e0) if e0 is not None else None
            if lf:
                touched.add(lf.split(".")[-1])
        return all(f in touched for f in fields), touched

    g, tg = resets_all("reset_good")
    bd, tb = resets_all("reset_bad")
    yield ("reset-completeness", "T4", g, bd)

    # T4 field effect set ------------------------------------------------------
    eff = R.writes_of_field(p, r"\.eof$")
    writers = sorted({b_.npath for b_, bb, s, v in eff})
    yield ("field-effect-set", "T4", any("reset_good" in w for w in writers) and not any("outsider_good" in w for w in writers), not any("outsider_bad" in w for w in writers))

    # T7 byte value-set ----------------------------------------------------------
    def table_ok(name):
        b = p.one(r"avcontrols::%s$" % name)
        tab, info = bytetab.byte_table(b, byte_expr=b.local_expr(1), start=0)
        assert tab and len({tab[x] for x in range(256)}) == 4, "byte table lost its four classes"
        return tab[13] != tab[10] and tab[10] == tab[0] and tab[ord("a")] == tab[ord("7")] and tab[ord("g")] == tab[0]

    yield ("byte-table", "T7", table_ok("step_good"), table_ok("step_bad"))

    # fixed-offset slice needs a dominating length test ----------------------------
    def len_ge2(name):
        b = p.one(r"Chan::%s$" % name)
        ge2 = lambda c, lab: bool(
            isinstance(lab, bool)
            and (lambda n: n and n[0] == "Lt" and n[3] is False and n[2][0] == "const" and n[2][2] >= 2 and e_calls(n[1], r"slice.*::len$|len$"))(R.norm_cmp(c, lab))
        )
        sites = [bb for bb in b.live if (b.term(bb) or {}).get("k") == "assert"] + calls(b, r"split_at$")
        assert sites, "no indexing site"
        return all(R.guarded_by(b, s, ge2)[0] for s in sites)

    yield ("slice-length-guard", "T1", len_ge2("code_good"), len_ge2("code_bad"))

    # T8 overflow assert guarded -----------------------------------------------------
    def sub_guarded(name):
        b = p.one(r"Chan::%s$" % name)
        subs = [bb for bb in b.live if (b.term(bb) or {}).get("k") == "assert" and "Sub" in str(b.term(bb).get("msg", b.term(bb)))]
        assert subs, "Assert(Overflow(Sub)) not found"
        pos = lambda c, lab: bool(isinstance(lab, bool) and (lambda n: n and n[0] == "Le" and n[3] is False and n[2][0] == "const" and n[2][2] == 0)(R.norm_cmp(c, lab)))
        return all(R.guarded_by(b, s, pos)[0] for s in subs)

    yield ("overflow-assert-guarded", "T8", sub_guarded("range_good"), sub_guarded("range_bad"))


def _adt_fields(a):
    if isinstance(a, dict):
        if "fields" in a:
            return a["fields"]
        vs = a.get("variants") or []
        if vs:
            return vs[0].get("fields", [])
    return []


def run_or_die():
    global LAST
    from .core import Prog

    try:
        p = Prog(_facts())
        res = []
        bad = []
        for name, tmpl, good, badv in _controls(p):
            ok = bool(good) and not bool(badv)
            res.append({"control": name, "template": tmpl, "good_accepted": bool(good), "bad_rejected": not bool(badv)})
            if not ok:
                bad.append(name)
    except SystemExit:
        raise
    except BaseException as e:
        import traceback

        traceback.print_exc()
        print("controls: checker broken (%s) — exit 2, no verdict" % e, file=sys.stderr)
        sys.exit(2)
    if bad:
        print("controls failed: %s — the checker itself is broken (exit 2, no verdict)" % ", ".join(bad), file=sys.stderr)
        sys.exit(2)
    LAST = {"status": "passed", "count": len(res), "controls": res}
    return LAST
