"""Obligation bookkeeping, known findings, evidence and VIOLATION output."""
import json
import os
import time

VERIF = os.path.dirname(os.path.dirname(os.path.abspath(__file__)))


class Check:
    """collects obligations for one property"""

    def __init__(self, pid, prog, tier):
        self.pid = pid
        self.prog = prog
        self.tier = tier
        self.obs = []  # dict(rule,key,ok,site,detail,nontrivial)
        self.t0 = time.time()
        self.notes = []
        self.assumptions = []

    # an obligation = one rule instance evaluated on one site
    def ob(self, rule, key, ok, body=None, bb=None, detail="", nontrivial=True, witness=None, line=None):
        site = None
        fn = None
        if body is not None:
            ln = line if line is not None else (body.line(bb) if bb is not None else body.lo)
            site = "%s:%d" % (body.file, ln)
            fn = body.path
        self.obs.append(
            dict(
                rule=rule,
                key="%s|%s" % (rule, key),
                ok=bool(ok),
                site=site,
                fn=fn,
                detail=detail,
                nontrivial=nontrivial,
                witness=witness,
            )
        )
        return ok

    def anchor(self, rule, found, floor, what):
        """fail closed when a query finds fewer sites than confirmed by hand"""
        ok = found >= floor
        self.obs.append(
            dict(
                rule=rule,
                key="%s|anchor-lost|%s" % (rule, what),
                ok=ok,
                site=None,
                fn=None,
                detail="query `%s` found %d site(s), need >= %d" % (what, found, floor),
                nontrivial=False,
                witness=None,
            )
        )
        return ok

    def note(self, s):
        self.notes.append(s)

    def assume(self, s):
        if s not in self.assumptions:
            self.assumptions.append(s)


def load_known():
    p = os.path.join(VERIF, "known_findings.json")
    if not os.path.exists(p):
        return []
    return json.load(open(p))


def finish(ck, explanation, rules_text, extra=None, seed=0):
    """print report, write evidence + replay files, return exit code"""
    known = [k for k in load_known() if k["property"] == ck.pid and k.get("status") == "known"]
    known_keys = {k["key"]: k for k in known}
    viol = []
    kf = []
    for o in ck.obs:
        if o["ok"]:
            continue
        if o["key"] in known_keys:
            kf.append((o, known_keys[o["key"]]))
        else:
            viol.append(o)
    evdir = os.environ.get("AVLINT_EVIDENCE_DIR") or os.path.join(VERIF, "evidence")  # override: self-test on scratch copies
    os.makedirs(os.path.join(evdir, "violations"), exist_ok=True)
    # stale replay files of this property
    for f in os.listdir(os.path.join(evdir, "violations")):
        if f.startswith(ck.pid + "-"):
            os.remove(os.path.join(evdir, "violations", f))
    seen_kf = set()
    for o, k in kf:
        if k["key"] in seen_kf:
            continue
        seen_kf.add(k["key"])
        print("KNOWN-FINDING: property=%s %s [%s]" % (ck.pid, k["what"], o["key"]))
    n = 0
    for o in viol:
        n += 1
        safe = "".join(c if c.isalnum() else "_" for c in o["key"])[:120]
        path = os.path.join(evdir, "violations", "%s-%s.json" % (ck.pid, safe))
        with open(path, "w") as fh:
            json.dump(dict(property=ck.pid, **o), fh, indent=1)
        print("  rule=%s site=%s fn=%s\n    %s" % (o["rule"], o["site"], o["fn"], o["detail"]))
        if o.get("witness"):
            print("    witness path (source lines): %s" % o["witness"])
        print("VIOLATION property=%s replay=%s" % (ck.pid, path))
    total = len(ck.obs)
    ok = sum(1 for o in ck.obs if o["ok"])
    nontriv = len({o["key"] for o in ck.obs if o["nontrivial"]})
    rules = sorted({o["rule"] for o in ck.obs})
    samples = []
    per_rule = {}
    for o in ck.obs:
        per_rule.setdefault(o["rule"], []).append(o)
    for r, os_ in sorted(per_rule.items()):
        for o in os_[:3]:
            samples.append({k: o[k] for k in ("rule", "key", "ok", "site", "fn", "detail")})
    cov = dict(
        explanation=explanation,
        obligations=total,
        discharged=ok,
        evaluations=total,
        distinct_nontrivial=nontriv,
        rule=rules_text,
        samples=samples[:60],
        rules=rules,
        per_rule={r: dict(instances=len(v), ok=sum(1 for o in v if o["ok"])) for r, v in sorted(per_rule.items())},
        bodies_loaded=len(ck.prog.bodies),
        crates={c: m["features"] for c, m in ck.prog.manifests.items()},
        known_findings=[k["key"] for _, k in kf],
        notes=ck.notes,
        checker_cmd="./check %s --tier %s" % (ck.pid, ck.tier),
        trusted_base=[
            "rustc MIR construction and trait resolution (nightly 1.97)",
            "factgen serialiser (/verif/factgen)",
            "avlint CFG/dominance/slicing code (/verif/avlint/core.py), exercised by controls on every run",
            "reference tables typed into the rules (RFC 7230/6455/7540 constants)",
        ],
    )
    if extra:
        cov.update(extra)
    ev = dict(
        property_id=ck.pid,
        tier=ck.tier,
        seed=seed,
        level="other",
        coverage=cov,
        assumptions=ck.assumptions
        + [
            "unwind paths are ignored by path rules",
            "calls through dyn / type parameters are opaque unless the rule says otherwise",
        ],
        wall_s=round(time.time() - ck.t0, 3),
        violations=len(viol),
    )
    with open(os.path.join(evdir, "%s.json" % ck.pid), "w") as fh:
        json.dump(ev, fh, indent=1)
    print(
        "%s: %d obligations over %d rules, %d discharged, %d known finding(s), %d violation(s)"
        % (ck.pid, total, len(rules), ok, len(seen_kf), len(viol))
    )
    return 1 if viol else 0
