"""Mutation self-test (thorough tier): does this property's rule set still
fire on the changes it is documented to catch?

For every patch under mutants/<Cxx>/ (hand-written mutants, the independently
seeded changes, and the reverts of the repairs made to /repo) a scratch copy of
/repo's *current working tree* is patched, the changed crates are re-extracted
with the same driver, and the property's rules are evaluated on the result.
Nothing of the program is ever run; this exercises the checker, and its result
is evidence about the checker (`selftest` in the evidence file), never a
verdict about /repo: it cannot produce a VIOLATION line or change the exit
code. A patch that no longer applies to the current tree is reported as
`skipped` (the tree moved), never as a miss.

The scratch copy and its target dir live under a fresh mkdtemp and are removed
before returning."""
import importlib
import os
import shutil
import subprocess
import tempfile
import time

VERIF = os.path.dirname(os.path.dirname(os.path.abspath(__file__)))
REPO = os.environ.get("VERIF_REPO", "/repo")
FACTGEN = os.path.join(VERIF, "factgen", "target", "release", "factgen")


def _copy_tree(dst):
    for root, dirs, fs in os.walk(REPO):
        dirs[:] = [d for d in dirs if d not in ("target", ".git", "node_modules")]
        rel = os.path.relpath(root, REPO)
        os.makedirs(os.path.join(dst, rel), exist_ok=True)
        for f in fs:
            s = os.path.join(root, f)
            if os.path.islink(s) or not os.path.isfile(s):
                continue
            shutil.copyfile(s, os.path.join(dst, rel, f))


def _crates_of(patch):
    """workspace crates (as rustc names) whose sources a patch touches"""
    out = set()
    for line in open(patch):
        if line.startswith("+++ b/"):
            out.add(line[6:].split("/")[0].strip().replace("-", "_"))
    return out


def _complete(path):
    try:
        with open(path, "rb") as fh:
            fh.seek(0, 2)
            n = fh.tell()
            if n < 2:
                return False
            fh.seek(n - 1)
            return fh.read(1) == b"\n"
    except OSError:
        return False


def _cargo(scr, tgt, out, dump=True, wait_for=None):
    """cargo check through the driver. With `wait_for` (crate names): a change inside function
    bodies of crate K cannot change the MIR of K's dependents, so as soon as the fact files of the
    patched crates are complete the rest of the rebuild is abandoned (the next run resumes it)."""
    sysroot = subprocess.check_output(["rustc", "+nightly", "--print", "sysroot"], text=True).strip()
    env = dict(os.environ)
    env.update(
        LD_LIBRARY_PATH=os.path.join(sysroot, "lib"),
        RUSTFLAGS="-Zmir-opt-level=0 -Awarnings",
        RUSTC_WORKSPACE_WRAPPER=FACTGEN,
        FACTGEN_OUT=out,
        CARGO_TARGET_DIR=tgt,
        CARGO_NET_OFFLINE="true",
        CARGO_TERM_COLOR="never",
    )
    env.pop("RUSTC_WRAPPER", None)
    if dump:
        env.pop("FACTGEN_ONLY", None)
    else:
        env["FACTGEN_ONLY"] = "__none__"  # warm the target dir only
    logf = tempfile.TemporaryFile(mode="w+")
    p = subprocess.Popen(["cargo", "+nightly", "check", "--offline", "--workspace", "--lib"], cwd=scr, env=env, stdout=logf, stderr=subprocess.STDOUT, text=True, start_new_session=True)
    early = False
    while p.poll() is None:
        time.sleep(0.4)
        if wait_for:
            have = {f.rsplit("-", 1)[0] for f in os.listdir(out) if f.endswith(".jsonl") and _complete(os.path.join(out, f))}
            if wait_for <= have:
                time.sleep(0.4)
                try:
                    os.killpg(p.pid, 15)
                except OSError:
                    pass
                p.wait()
                early = True
                break
    logf.seek(0)
    log = logf.read()
    logf.close()
    return (early or p.returncode == 0), log


def _failing(pid, prog):
    from . import report
    from .core import AnchorLost

    mod = importlib.import_module("avlint.props.%s" % pid.lower())
    ck = report.Check(pid, prog, "quick")
    try:
        mod.run(ck, prog, "quick", None)
    except AnchorLost as e:
        ck.ob("anchor", "anchor-lost|" + str(e)[:80], False, detail=str(e), nontrivial=False)
    known = {k["key"] for k in report.load_known() if k["property"] == pid and k.get("status") == "known"}
    return sorted({o["key"] for o in ck.obs if not o["ok"] and o["key"] not in known})


def run(pid, limit=None):
    from .core import Prog

    mdir = os.path.join(VERIF, "mutants", pid)
    if not os.path.isdir(mdir):
        return {"status": "no mutants recorded for this property"}
    patches = sorted(f for f in os.listdir(mdir) if f.endswith(".diff"))
    limit = int(os.environ.get("AVLINT_SELFTEST_MAX", limit or 12) or 0)
    if limit:
        # keep a spread: seeds and fix-reverts first, then hand-written mutants
        pri = [p for p in patches if p.startswith(("seed-", "revert-"))] + [p for p in patches if not p.startswith(("seed-", "revert-"))]
        patches = pri[:limit]
    t0 = time.time()
    tmp = tempfile.mkdtemp(prefix="avlint-selftest-")
    scr, tgt = os.path.join(tmp, "repo"), os.path.join(tmp, "target")
    res = []
    try:
        _copy_tree(scr)
        ok, log = _cargo(scr, tgt, os.path.join(tmp, "none"), dump=False)
        if not ok:
            return {"status": "scratch copy does not build", "log": log[-600:]}
        # facts of the unpatched tree come from the same cache the verdict used
        import sys

        chk = sys.modules.get("__main__")
        base_dir = chk.facts("ws") if hasattr(chk, "facts") else os.environ["AVLINT_FACTS"]
        base_fail = set(_failing(pid, Prog(base_dir)))
        for pf in patches:
            path = os.path.join(mdir, pf)
            a = subprocess.run(["git", "apply", "--check", path], cwd=scr, capture_output=True, text=True)
            if a.returncode != 0:
                res.append({"mutant": pf, "result": "skipped: patch does not apply to the current tree"})
                continue
            subprocess.run(["git", "apply", path], cwd=scr, check=True)
            out = os.path.join(tmp, "out-" + pf)
            os.makedirs(out, exist_ok=True)
            try:
                ok, log = _cargo(scr, tgt, out, wait_for=_crates_of(path))
                if not ok:
                    res.append({"mutant": pf, "result": "skipped: mutant does not compile on the current tree"})
                    continue
                for f in os.listdir(out):  # dependents interrupted mid-write
                    if f.rsplit("-", 1)[0] not in _crates_of(path) or not _complete(os.path.join(out, f)):
                        os.remove(os.path.join(out, f))
                if not os.listdir(out):
                    res.append({"mutant": pf, "result": "skipped: no crate was re-extracted"})
                    continue
                new = [k for k in _failing(pid, Prog(base_dir, override=out)) if k not in base_fail]
                res.append({"mutant": pf, "result": "detected" if new else "MISSED", "fired": new[:4]})
            finally:
                subprocess.run(["git", "apply", "-R", path], cwd=scr)
                shutil.rmtree(out, ignore_errors=True)
    finally:
        shutil.rmtree(tmp, ignore_errors=True)
    det = sum(1 for r in res if r["result"] == "detected")
    missed = [r["mutant"] for r in res if r["result"] == "MISSED"]
    if missed:
        print("selftest: %s rules did not fire on mutant(s) %s (checker weakness; not a verdict on /repo)" % (pid, missed))
    return {
        "status": "ran",
        "mutants_total": len(res),
        "mutants_detected": det,
        "mutants_missed": missed,
        "mutants_skipped": [r["mutant"] for r in res if r["result"].startswith("skipped")],
        "results": res,
        "wall_s": round(time.time() - t0, 1),
    }
