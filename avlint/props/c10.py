"""C10 — path patterns: matcher agreement, segment boundaries, escaping, decoder table."""
from ..rules import *  # noqa
from ..bytetab import byte_table, classes

EXPLANATION = (
    "Static rules over actix_router::{resource,quoter,path}: (a) the three matchers (is_match, find_match, "
    "capture_match_info_fn) each switch over all PatternType variants and use the same matcher family per variant "
    "(static_match; the stored Regex; RegexSet first match then the per-pattern Regex), and the matched length is the "
    "length of capture group 1 in both places that need it; (b) the regex built by ResourceDef::parse receives user "
    "pattern text only through regex::escape or through parse_param (everything else pushed is a literal), starts with "
    "REGEX_FLAGS + '^', wraps the pattern in group 1, and on every non-tail path to Regex::new appends exactly '$' "
    "(non-prefix) or '(/|$)' (prefix); static_match accepts only an empty remainder, or for prefixes a remainder that "
    "starts with '/'; (c) the default segment languages are `[^/]+` and `.*`, the flags are `(?s-m)`; (d) the segment "
    "list used to build paths is written only from parse's output; (e) the percent-decoder examines every position "
    "(the scan index advances by one), accepts exactly two hex digits after '%' and skips exactly the protected bytes. "
    "That the generated regex matches exactly its language, captured substrings as values, and the build/match round "
    "trip are value-level facts and are not decided; the u16 offsets are sound only under the 64 KiB Uri limit of the "
    "`http` crate (assumption, not checked)."
)
RULES = "per-arm call-set agreement between sibling matchers; provenance of regex fragments; must-pass-through for the boundary suffix; constants; effect sets."

RD = "actix_router::resource::ResourceDef"


def arm_calls(b, enum_suffix):
    """variant -> set of callee names called inside that arm (dominated region)"""
    out = {}
    for a in b.live:
        br = b.branch(a)
        if br and br[0][0] == "discr" and (br[0][2] or "").endswith(enum_suffix):
            for lab, tb in br[1]:
                if isinstance(lab, str):
                    reg = [x for x in b.reach([tb]) if b.dominates(tb, x)]
                    out[lab] = {cname(b.term(x)) for x in reg if b.term(x)["k"] == "call"}
    return out


def run(ck, prog, tier, load):
    ck.assume("the `http` crate limits a request URI to 64 KiB, so u16 path offsets cannot wrap (not checked here)")
    im = prog.one(r"^%s::is_match$" % RD)
    fm = prog.one(r"^%s::find_match$" % RD)
    cm = prog.one(r"^%s::capture_match_info_fn$" % RD)
    sm = prog.one(r"^%s::static_match$" % RD)
    parse = prog.one(r"^%s::parse$" % RD)
    pparam = prog.one(r"^%s::parse_param$" % RD)

    # ---- (a) matcher agreement ---------------------------------------------------
    want = {
        "Static": r"ResourceDef::static_match$",
        "Dynamic": r"regex::regex::string::Regex::(is_match|captures)$|regex_lite::.*Regex::(is_match|captures)$",
        "DynamicSet": r"regex_set::RegexSet::(is_match|first_match_idx)$",
    }
    for b in (im, fm, cm):
        ac = arm_calls(b, "resource::PatternType")
        ck.ob("C10-a.all-variants", b.npath.split("::")[-1], set(ac) == {"Static", "Dynamic", "DynamicSet"}, b, None, "%s switches over all three PatternType variants (%s)" % (b.npath.split("::")[-1], sorted(ac)))
        for v, pat in want.items():
            names = ac.get(v, set())
            ok = any(rx(pat).search(n) for n in names)
            # and no arm uses another family's primary matcher
            others = [p for k, p in want.items() if k != v and k != "Dynamic"]
            cross = [n for n in names if any(rx(p).search(n) for p in others)] if v != "DynamicSet" else [n for n in names if rx(want["Static"]).search(n)]
            ck.ob("C10-a.matcher-family", "%s|%s" % (b.npath.split("::")[-1], v), ok and not cross, b, None, "arm %s of %s uses its own matcher family" % (v, b.npath.split("::")[-1]))
    # DynamicSet: the per-pattern regex is params[first_match_idx]
    for b in (fm, cm):
        idx = [bb for bb, t in b.calls(r"Index.*::index$") if e_calls(b.op_expr(t["args"][1]), r"RegexSet::first_match_idx$")]
        ck.ob("C10-a.set-uses-first-match", b.npath.split("::")[-1], bool(idx), b, idx[0] if idx else None, "the DynamicSet arm indexes the per-pattern table with RegexSet::first_match_idx(path)")
    # matched length = captures[1].len()
    for b in (fm, cm):
        g1 = []
        for bb, t in b.calls(r"Captures.*Index<usize>>::index$|Index<usize>.*::index$"):
            k = b.op_expr(t["args"][1])
            if k[0] == "const":
                g1.append((bb, k[2]))
        ok = bool(g1) and all(k == 1 for bb, k in g1)
        ck.ob("C10-a.length-from-group-1", b.npath.split("::")[-1], ok and len(g1) >= 2, b, g1[0][0] if g1 else None, "matched length is taken from capture group 1 in both regex arms (indices used: %s)" % [k for bb, k in g1])
    # every recorded segment is the group looked up BY NAME with the name paired with that slot: a positional
    # lookup is shifted by any group inside a user-supplied segment regex
    segs = agg_sites(cm, r"PathItem::Segment$")
    ck.anchor("C10-a", len(segs), 2, "PathItem::Segment constructions in capture_match_info_fn")
    for i, (bb, st, e) in enumerate(segs):
        by_name = [c for c in e_calls(e, r"Captures.*::name$")]
        positional = [c for c in e_calls(e, r"Captures.*::get$|Captures.*Index")]
        lookups = [(b2, t) for b2, t in cm.calls(r"Captures.*::name$") if cm.dominates(b2, bb)]
        names_ok = bool(by_name) and bool(lookups) and all(e_calls(cm.op_expr(t["args"][1]), r"Iterator::enumerate$") for b2, t in lookups)
        ck.ob("C10-a.segment-by-name", "capture_match_info_fn|arm#%d" % i, names_ok and not positional, cm, bb,
              "the recorded start/end come from captures.name(name) with `name` drawn from the enumerated names table (positional group numbers are shifted by groups inside custom segment regexes): %s" % short(e, 5))
    # capture_match_info_fn: no mutation of the path before check_fn accepted
    chk = [bb for bb, t in cm.calls(r"FnOnce.*::call_once$")]
    muts = [bb for bb, t in cm.calls(r"actix_router::path::Path.*::(add|skip)$")]
    ck.anchor("C10-a", len(muts), 2, "Path::add / Path::skip in capture_match_info_fn")
    for bb in muts:
        ok = any(c[0] == "call" and rx(r"call_once$").search(c[1] or "") and lab is True for c, lab, a in ((strip_not(c)[0], (l if strip_not(c)[1] else (not l)) if isinstance(l, bool) else l, a) for c, l, a in cm.guards(bb)))
        ck.ob("C10-a.mutation-after-check", "capture_match_info_fn|%s" % cname(cm.term(bb)).split("::")[-1], ok, cm, bb, "the resource path is modified only on the edge where check_fn returned true (a rejected candidate leaves no trace)")

    # ---- (b) regex construction ------------------------------------------------------
    # RE = the String variables of parse: the expression being assembled (before and after wrapping in group 1)
    rn = [bb for bb, t in parse.calls(r"Regex::new$")]
    re_locals = user_locals(parse, r"^alloc::string::String$")
    ck.anchor("C10-b", len(re_locals), 1, "String variable(s) of ResourceDef::parse (the expression being assembled)")
    pushes = []
    for bb, t in parse.calls(r"alloc::string::String::push_str$"):
        bl = base_local(parse, t["args"][0])
        if bl is not None and bl in re_locals:
            pushes.append((bb, t))
    ck.anchor("C10-b", len(pushes), 2, "re.push_str(..) in ResourceDef::parse")
    for i, (bb, t) in enumerate(pushes):
        arg = parse.op_expr(t["args"][1])
        if arg[0] == "const" or (e_consts(arg) and not [r for r in e_roots(arg) if r[0] in ("arg", "var", "phi", "call")]):
            kind = "literal %r" % (e_consts(arg)[0][3] if e_consts(arg) else None)
            ok = True
        elif e_calls(arg, r"regex_syntax::escape$|regex::escape$|regex_lite::(hir::)?escape$"):
            kind, ok = "escape(..)", True
        elif is_regex_part(arg):
            kind, ok = "parse_param(..) regex part", True
        else:
            kind, ok = "raw %s" % short(arg, 3), False
        ck.ob("C10-b.fragment-provenance", "push#%d|%s" % (i, kind.split(" ")[0]), ok, parse, bb, "text appended to the regex is %s (user pattern text must go through escape or parse_param)" % kind)
    ck.anchor("C10-b", len(rn), 1, "Regex::new in ResourceDef::parse")

    def var_edge(locs, val):
        def p(c, lab):
            c2, tr = strip_not(c, True)
            return isinstance(lab, bool) and is_local(c2, locs) and (lab if tr else not lab) is val
        return p

    dollar = [bb for bb, t in parse.calls(r"String::push$") if parse.op_expr(t["args"][1])[2] == ord("$") and base_local(parse, t["args"][0]) in re_locals]
    pfx = [bb for bb, t in pushes if any(k[3] == "(/|$)" for k in e_consts(parse.op_expr(t["args"][1])))]
    # PFX = the bool parameter under whose true edge '(/|$)' is appended; TAIL = the bool variable (set in the
    # segment loop, hence with several definitions) under whose false edge a boundary suffix is appended
    PFX = set(l for bb in pfx for l in locals_guarding(parse, bb, True) if parse.locals[l]["k"] == "arg")
    TAIL = set(l for bb in pfx + dollar for l in locals_guarding(parse, bb, False) if parse.locals[l]["k"] == "var" and len(parse.defs().get(l, [])) >= 2)
    ck.anchor("C10-b", len(PFX), 1, "bool parameter guarding the '(/|$)' suffix (is-prefix)")
    ck.anchor("C10-b", len(TAIL), 1, "bool variable guarding the boundary suffix (has-tail-segment)")
    for r_ in rn:
        # assume !has_tail_segment: every path passes one of the two suffixes
        rem = edges_where(parse, var_edge(TAIL, True))
        r = parse.reach([0], removed=set(dollar) | set(pfx), removed_edges=rem | parse.dead_edges())
        ck.ob("C10-b.boundary-suffix", "non-tail", bool(dollar) and bool(pfx) and r_ not in r, parse, r_, "assuming no tail segment, Regex::new is reached only after appending '$' or '(/|$)'")
        r1 = parse.reach([0], removed=set(pfx), removed_edges=rem | edges_where(parse, var_edge(PFX, False)) | parse.dead_edges())
        ck.ob("C10-b.boundary-suffix", "prefix", bool(pfx) and r_ not in r1, parse, r_, "... for a prefix resource specifically '(/|$)' (a prefix stops only at a segment boundary)")
        r2 = parse.reach([0], removed=set(dollar), removed_edges=rem | edges_where(parse, var_edge(PFX, True)) | parse.dead_edges())
        ck.ob("C10-b.boundary-suffix", "exact", bool(dollar) and r_ not in r2, parse, r_, "... for a non-prefix resource specifically '$'")
    # flags + anchor + group wrapper: literals of the format! calls
    lits = [k[3] for b2 in prog.with_closures(parse) for bb, i, s in b2.assigns() for k in e_consts(b2.rv_expr(s["rv"], 3)) if k[3] is not None]
    lits += [k[3] for bb, t in parse.calls() for a in t["args"] for k in e_consts(parse.op_expr(a, 3)) if k[3] is not None]
    fmt = [k[3] for bb, t in parse.calls(r"core::fmt::Arguments::new$") for k in e_consts(parse.op_expr(t["args"][0])) if k[3] is not None]
    lits += fmt
    ck.ob("C10-b.anchored", "^", any("^" in l and len(l) < 8 for l in fmt), parse, None, "the expression is anchored at the start ('^' literal in the first format!)")
    ck.ob("C10-b.group-1", "()", any("(" in l and ")" in l and len(l) < 10 for l in fmt), parse, None, "the pattern is wrapped in capture group 1")
    # static_match
    somes = ret_sites(sm, lambda e: is_agg(e, r"Option::Some$"))
    ck.anchor("C10-b", len(somes), 2, "Some(..) returns of static_match")
    for i, (bb, e) in enumerate(somes):
        gs = sm.guards(bb)
        g_empty = any(strip_not(c)[0][0] == "call" and rx(r"core::str::is_empty$").search(strip_not(c)[0][1] or "") and (lab if strip_not(c)[1] else not lab) is True for c, lab, a in gs if isinstance(lab, bool))
        g_slash = any(strip_not(c)[0][0] == "call" and rx(r"starts_with$").search(strip_not(c)[0][1] or "") and any(k[2] == ord("/") for k in e_consts(c)) and (lab if strip_not(c)[1] else not lab) is True for c, lab, a in gs if isinstance(lab, bool))
        pre = guarded_by(sm, bb, lambda c, lab: isinstance(lab, bool) and e_has_field(strip_not(c)[0], r"ResourceDef\.is_prefix$") and (lab if strip_not(c)[1] else not lab) is True)[0]
        ok = guarded_by(sm, bb, lambda c, lab: isinstance(lab, bool) and strip_not(c)[0][0] == "call" and rx(r"is_empty$").search(strip_not(c)[0][1] or "") is not None and (lab if strip_not(c)[1] else not lab) is True)[0] or (g_slash and pre)
        # weaker but robust: every path to a Some crosses is_empty==true or (starts_with('/')==true)
        def acc(c, lab):
            c2, tr = strip_not(c, True)
            if not isinstance(lab, bool) or c2[0] != "call":
                return False
            v = lab if tr else not lab
            return v is True and (rx(r"is_empty$").search(c2[1] or "") is not None or (rx(r"starts_with$").search(c2[1] or "") is not None and any(k[2] == ord("/") for k in e_consts(c2))))
        ok = guarded_by(sm, bb, acc)[0]
        ck.ob("C10-b.static-boundary", "Some#%d" % i, ok, sm, bb, "static_match returns Some only across `rem.is_empty()` or `rem.starts_with('/')`")
    # the starts_with('/') acceptance is prefix-only
    for a in sm.live:
        br = sm.branch(a)
        if br and strip_not(br[0])[0][0] == "call" and rx(r"starts_with$").search(strip_not(br[0])[0][1] or ""):
            ok = guarded_by(sm, a, lambda c, lab: (e_has_field(strip_not(c)[0], r"ResourceDef\.is_prefix$") and ((lab if strip_not(c)[1] else not lab) is True if isinstance(lab, bool) else lab == 1)))[0]
            ck.ob("C10-b.slash-only-for-prefix", "static_match", ok, sm, a, "the `starts_with('/')` acceptance is evaluated only for prefix resources")
    ck.ob("C10-b.strip-prefix", "static_match", any(True for _ in sm.calls(r"core::str::strip_prefix$|<impl str>::strip_prefix$")), sm, None, "static text is matched literally with strip_prefix", nontrivial=False)

    # ---- (c) constants ------------------------------------------------------------------
    def const_str(path):
        b = prog.nbodies.get(path, [None])[0]
        if b is None:
            return None
        for bb, e in b.ret_exprs():
            for k in e_consts(e):
                if k[3] is not None:
                    return k[3]
        return None
    for path, want_s in ((RD + "::parse_param::DEFAULT_PATTERN", "[^/]+"), (RD + "::parse_param::DEFAULT_PATTERN_TAIL", ".*"), ("actix_router::resource::REGEX_FLAGS", "(?s-m)")):
        got = const_str(path)
        ck.ob("C10-c.constant", path.split("::")[-1], got == want_s, None, None, "%s = %r (expected %r)" % (path.split("::")[-1], got, want_s), nontrivial=False)

    # ---- (d) segment list ------------------------------------------------------------------
    SEG = r"\.actix_router::resource::ResourceDef\.segments$"
    for b, bb, s, e in writes_of_field(prog, SEG, ["actix_router"]):
        ck.ob("C10-d.segments-writer", b.npath, False, b, bb, "ResourceDef.segments written outside the constructor")
    cons = prog.one(r"^%s::construct$" % RD)
    agg = [(bb, s) for bb, i, s in cons.assigns() if s["rv"]["k"] == "agg" and s["rv"].get("adt") == RD]
    ok = False
    for bb, s in agg:
        fields = s["rv"]["fields"]
        ops = s["rv"]["ops"]
        if "segments" in fields:
            e = cons.op_expr(ops[fields.index("segments")])
            ok = any(e_calls(x, r"ResourceDef::parse$") for x in deep_conds(cons, e)) or bool(e_calls(e, r"ResourceDef::parse$"))
    ck.ob("C10-d.segments-from-parse", "construct", ok, cons, agg[0][0] if agg else None, "ResourceDef.segments is initialised from parse()'s output")

    # building a path from a pattern: static pieces and supplied values are appended verbatim, in segment order
    bp = prog.one(r"^%s::build_resource_path$" % RD)
    pushes_b = [(bb, t, bp.op_expr(t["args"][1], 6)) for bb, t in bp.calls(r"String::push_str$")]
    ck.anchor("C10-d", len(pushes_b), 2, "push_str sites in build_resource_path")
    PASS = r"Deref>::deref$|Deref::deref$|AsRef.*::as_ref$|Borrow.*::borrow$|String::as_str$"
    for bb, t, e in pushes_b:
        arm = [lab for c, lab, a in bp.guards(bb) if c[0] == "discr" and isinstance(lab, str) and lab in ("Const", "Var", "Tail")]
        other = [c_ for c_ in e_calls(e) if not rx(PASS).search(c_[1] or "") and not rx(r"Iterator>::next$|IntoIterator>::into_iter$|FnMut.*::call_mut$|Fn.*::call$").search(c_[1] or "")]
        verbatim = not other and not e_bins(e) and not any(x[0] == "phi" for x in walk(e))
        if arm and arm[0] == "Const":
            src_ok = any(x[0] == "place" and any(isinstance(p_, str) and p_ == "@Const" for p_ in x[2]) for x in walk(e))
        else:
            src_ok = bool(e_calls(e, r"FnMut.*::call_mut$|Fn.*::call$"))
        ck.ob("C10-d.build-appends-verbatim", "build_resource_path|%s" % (arm[0] if arm else "?"), verbatim and src_ok, bp, bb,
              "the text appended for a %s segment is exactly the stored static text / the supplied value (no trimming, joining or re-encoding: a built path must match its own pattern and give the values back): %s" % (arm[0] if arm else "?", short(e, 5)))
    it = [bb for bb, t in bp.calls(r"::rev$|next_back$")]
    ck.ob("C10-d.build-in-order", "build_resource_path", not it, bp, it[0] if it else None, "segments are visited front to back")
    # a pattern list is matched through a regex set whose i-th member is the i-th pattern: the per-pattern table built by
    # construct() is indexed with RegexSet::first_match_idx, so the set must keep every expression, in order
    rsn = prog.find(r"^actix_router::regex_set::RegexSet::new$")
    ck.anchor("C10-d", len(rsn), 1, "RegexSet::new")
    for b in rsn:
        args_in = set(i_ for i_, l in enumerate(b.locals) if l["k"] == "arg")
        REORDER = r"::(dedup|dedup_by|dedup_by_key|sort|sort_unstable|sort_by|sort_by_key|retain|remove|swap_remove|truncate|reverse|drain|pop|swap|rotate_left|rotate_right|clear)$"
        touched = [(bb, cname(t)) for bb, t in b.calls(REORDER) if t["args"] and base_local(b, t["args"][0]) in args_in]
        # the value stored in the set: built from the parameter element by element, in order (either the regex crate's own
        # set constructor, or map(Regex::new).collect() under regex-lite); nothing that selects, skips or reverses
        built = [b.rv_expr(s_["rv"], 8) for bb, i_, s_ in b.assigns() if s_["rv"]["k"] == "agg" and (s_["rv"].get("adt") or "").endswith("regex_set::RegexSet")]
        ALLOWED = r"RegexSet::new$|Result.*::unwrap$|Iterator::collect$|Iterator::map$|slice::iter$|IntoIterator>::into_iter$|Deref>::deref$|Vec.*::into_iter$|Vec.*::iter$"
        inner = built
        direct = bool(built) and all(root_is(e, args_in) and all(rx(ALLOWED).search(c_[1] or "") for c_ in e_calls(e)) for e in built)
        ck.ob("C10-d.regex-set-keeps-every-pattern", "RegexSet::new", direct and not touched, b, touched[0][0] if touched else None,
              "the expressions are handed to the set as given, none dropped or moved (%s): index i of the set must stay pattern i of the per-pattern table" % (", ".join(n.split("::")[-1] for bb, n in touched) or "no reordering call"))
    # when the path text is replaced (NormalizePath inside a scope) every stored offset is translated: the consumed prefix too
    uwr = prog.find(r"^actix_router::path::Path(<T>)?::update_with_reindex$")
    ck.anchor("C10-d", len(uwr), 1, "Path::update_with_reindex")
    for b in uwr:
        re_calls = [bb for bb, t in b.calls(r"FnMut.*::call_mut$|Fn.*::call$")]
        sk = [bb for bb, i, s_ in b.assigns() if any(isinstance(x, str) and x.endswith("path::Path.skip") for x in s_["p"][1:]) and e_calls(b.rv_expr(s_["rv"], 4), r"FnMut.*::call_mut$|Fn.*::call$")]
        ok = bool(sk) and b.must_pass([0], b.returns(), sk)[0]
        ck.ob("C10-d.reindex-covers-skip", "update_with_reindex", ok, b, sk[0] if sk else None, "the offset of the already-matched prefix (Path.skip) is translated with the same mapping as the captured segments, on every path")
        segw = [bb for bb in re_calls if any(isinstance(p_, str) and p_ == "@Segment" for x in walk(b.op_expr(b.term(bb)["args"][1], 5)) if x[0] == "place" for p_ in x[2])]
        ck.ob("C10-d.reindex-covers-segments", "update_with_reindex", len(segw) >= 2, b, segw[0] if segw else None, "both ends of every captured segment are translated (%d translation call(s) on Segment fields)" % len(segw))
    # ---- (e) percent-decoder -----------------------------------------------------------------
    dn = prog.one(r"^actix_router::quoter::Quoter::decode_next$")
    sp = [bb for bb, t in dn.calls(r"split_at$")]
    ck.anchor("C10-e", len(sp), 1, "split_at(i) in Quoter::decode_next")
    for bb in sp:
        idx = dn.op_expr(dn.term(bb)["args"][1])
        from_range = bool(e_calls(idx, r"Range<.*Iterator>::next$|iter::range::.*next$|Iterator>::next$"))
        steps = [x for x in walk(idx) if x[0] == "bin" and x[1] in ("Add", "AddWithOverflow")]
        unit = all(any(k[2] == 1 for k in e_consts(x[3])) and not any(k[2] not in (0, 1, None) for k in e_consts(x[3])) for x in steps)
        ck.ob("C10-e.scan-every-position", "decode_next", from_range or (bool(steps) and unit), dn, bb,
              "the scan index comes from a unit-step range (or only ever grows by 1): every position is examined for an escape (%s)" % short(idx, 3))
    hx = prog.one(r"^actix_router::quoter::hex_pair_to_char$")
    td = [t for bb, t in hx.calls(r"char::methods::<impl char>::to_digit$")]
    ok = len(td) == 2 and all(hx.op_expr(t["args"][1])[2] == 16 for t in td)
    ck.ob("C10-e.two-hex-digits", "hex_pair_to_char", ok, hx, None, "an escape is two to_digit(16) conversions, both required (`?`)")
    shl = [x for bb, i, s in hx.assigns() for x in walk(hx.rv_expr(s["rv"], 4)) if x[0] == "bin" and x[1] in ("Shl", "ShlUnchecked") and any(k[2] == 4 for k in e_consts(x[3]))]
    ck.ob("C10-e.nibbles", "hex_pair_to_char", bool(shl), hx, None, "value = (high << 4) | low", nontrivial=False)
    clo = [c for c in prog.with_closures(dn) if c is not dn]
    ok = any(any(True for _ in c.calls(r"AsciiBitmap::bit_at$")) for c in clo)
    ck.ob("C10-e.protected-skipped", "decode_next", ok, dn, None, "decoded bytes are filtered by the protected table (bit_at) and by `ch < 128`")
    # protected sets of the two quoters
    for name, must in (("actix_router::url::DEFAULT_QUOTER", {"/", "%", "+"}),):
        strs = set()
        for b in prog.find(r"^%s" % re_escape(name)):
            for bb, i, s in b.assigns():
                for k in e_consts(b.rv_expr(s["rv"], 3)):
                    if k[3] is not None:
                        strs.add(k[3])
            for bb, t in b.calls():
                for a in t["args"]:
                    for k in e_consts(b.op_expr(a, 3)):
                        if k[3] is not None:
                            strs.add(k[3])
        prot = set("".join(strs))
        ck.ob("C10-e.protected-set", name.split("::")[-1], must <= prot, None, None, "DEFAULT_QUOTER protects %s (literals seen: %s): decoding cannot create a '/' or a '%%'" % (sorted(must), sorted(strs)))


def is_regex_part(e):
    """expression is exactly the second tuple field (the regex fragment) of a
    parse_param(..) result, possibly behind deref/borrow calls — not the
    remaining-pattern field, and not a join with other sources"""
    while isinstance(e, tuple) and e[0] == "call" and rx(r"Deref>::deref$|AsRef.*as_ref$|String::as_str$|Borrow.*borrow$").search(e[1] or "") and e[2]:
        e = e[2][0]
    if not (isinstance(e, tuple) and e[0] == "place"):
        return False
    base, projs = e[1], e[2]
    return base[0] == "call" and rx(r"ResourceDef::parse_param$").search(base[1] or "") is not None and ".1" in projs and ".2" not in projs and ".0" not in projs


def re_escape(s):
    import re as _re
    return _re.escape(s)
