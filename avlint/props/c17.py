"""C17 — HTTP client: complete body or error; pool discipline."""
from ..rules import *  # noqa

EXPLANATION = (
    "Static rules over awc::client::{h1proto,pool,connection} and actix_http::h1::client: (a) every Decoder whose decode "
    "reaches the framing-aware PayloadDecoder must have an end-of-input rule: either it overrides decode_eof with an "
    "error exit for a payload still in progress, or every consumer that maps the transport's end to end-of-stream "
    "branches on the codec's payload state. The server codec's consumer does (the dispatcher fails the body with "
    "Incomplete); the client's ClientPayloadCodec has neither and PlStream maps `None` to a clean end — a known finding "
    "(a body cut before its framed length is returned as a short success; the repair breaks an existing test that "
    "depends on the lenient behaviour). (b) a connection is released for reuse only from the framed-end arm of the "
    "body stream (or for a bodiless response), with the codec's keep-alive decision; the taint probe treats any "
    "unsolicited byte as Tainted and only a Pending read as Live, and a pooled H1 connection is handed out only after "
    "that probe said Live; (c) permits: the semaphore permit is acquired before the idle-connection lookup and before "
    "connecting, Acquired (which carries the permit) is the only way to release/close, and it is built from that "
    "permit. Idle pooled connections hold no permit, so the number of OPEN connections is not bounded by the limit: a "
    "known finding. Timing of keep-alive expiry is not decided."
)
RULES = "type-level fact (impl overrides provided method), guarded-site, dominance of acquire over lookup/connect, effect sets, table extraction for the probe."


def run(ck, prog, tier, load):
    # ---- (a) framing-aware decoders need an EOF rule ---------------------------------
    decs = []
    for im in prog.impls:
        if im.get("trait") == "tokio_util::codec::decoder::Decoder" and im["crate"] in ("actix_http", "awc"):
            names = {it["n"]: it["path"] for it in im["items"]}
            if "decode" not in names:
                continue
            b = prog.nbodies.get(norm(names["decode"]), [None])[0]
            if b is None:
                continue
            if prog.fn_reaches(b, r"PayloadDecoder as tokio_util::codec::decoder::Decoder>::decode$", 2):
                decs.append((im, names, b))
    ck.anchor("C17-a", len(decs), 2, "Decoder impls whose decode reaches PayloadDecoder::decode (h1::Codec, ClientPayloadCodec, ...)")
    for im, names, b in decs:
        who = im["self"].split("::")[-1]
        if who == "PayloadDecoder" or im["self"].endswith("decoder::PayloadDecoder"):
            continue
        has_eof = "decode_eof" in names
        eof_errs = False
        if has_eof:
            eb = prog.nbodies.get(norm(names["decode_eof"]), [None])[0]
            eof_errs = eb is not None and any(is_agg(e, r"Result::Err$") for bb, e in eb.ret_exprs())
        # consumers that turn transport EOF into end-of-stream and check the payload state themselves
        consumer_checks = False
        if who == "Codec" and im["self"].startswith("actix_http::h1::codec"):
            # server side: on read EOF the dispatcher fails the request body
            poll = prog.find(r"^<actix_http::h1::dispatcher::Dispatcher<T, S, B, X, U> as core::future::future::Future>::poll$")
            consumer_checks = bool(poll) and any(any(is_agg(x, r"PayloadError::Incomplete$") for x in walk(poll[0].op_expr(t["args"][1]))) for bb, t in poll[0].calls(r"PayloadSender::set_error$"))
        ok = (has_eof and eof_errs) or consumer_checks
        ck.ob("C17-a.eof-rule", who, ok, b, None,
              "%s decodes framed payloads; end of input with a payload in progress must be an error (decode_eof override with an error exit: %s; consumer fails the body on EOF: %s) — otherwise a body cut before its framed length ends cleanly" % (im["self"], has_eof and eof_errs, consumer_checks))
    pls = prog.one(r"^<awc::client::h1proto::PlStream<Io> as futures_core::stream::Stream>::poll_next$")
    # ---- (b) release discipline -------------------------------------------------------------
    rel = [(bb, t) for bb, t in pls.calls(r"H1Connection.*::on_release$")]
    ck.anchor("C17-b", len(rel), 1, "on_release in PlStream::poll_next")
    for bb, t in rel:
        # guarded by Some(None): outer Some, inner None
        gs = pls.guards(bb)
        g_some = any(c[0] == "discr" and lab == "Some" for c, lab, a in gs)
        g_none = any(c[0] == "discr" and lab == "None" and any(isinstance(p, str) and p.startswith("@Some") for p in (c[1][2] if c[1][0] == "place" else ())) for c, lab, a in gs)
        ka = pls.op_expr(t["args"][1])
        ck.ob("C17-b.release-at-framed-end", "PlStream::poll_next", g_some and g_none and bool(e_calls(ka, r"ClientPayloadCodec::keep_alive$|ClientCodec::keep_alive$")), pls, bb,
              "the connection is released only on the codec's end-of-body item (Some(None)), with the codec's keep-alive decision")
    # every other caller of on_release(h1)
    for b, bb, t in prog.callers(r"^awc::client::connection::H1Connection<Io>::on_release$|^awc::client::connection::H1Connection::on_release$"):
        if b is pls:
            continue
        g = any(c[0] == "discr" and (c[2] or "").endswith("h1::MessageType") and labels_in(lab, ("None",)) for c, lab, a in b.guards(bb))
        g = g or any((c[0] == "discr" and lab == "None") for c, lab, a in b.guards(bb))
        # or the connection was never used for this exchange (nothing was sent yet)
        used = any(is_call(b.term(d), r"SinkExt::(send|feed)$|Sink.*::(start_send|poll_flush)$|send_body$") for d in b.dominators(bb))
        g = g or not used
        ck.ob("C17-b.release-at-framed-end", b.npath.split("::")[-1] + "|bodiless", g, b, bb, "outside the body stream the connection is released only for a response without a body (MessageType::None)")
    # probe
    cf = prog.one(r"^<awc::client::pool::ConnectionCheckFuture<'_, Io> as core::future::future::Future>::poll$")
    states = {}
    for bb, st, e in agg_sites(cf, r"ConnectionState::"):
        nm = e[2].split("::")[-1]
        labs = [(short(c, 2), lab_s(lab)) for c, lab, a in cf.guards(bb)]
        states[nm] = (bb, labs)
    ck.anchor("C17-b", len(states), 2, "ConnectionState outcomes in the taint probe")
    if "Live" in states:
        bb = states["Live"][0]
        ok = any(c[0] == "discr" and e_calls(c, r"poll_read$") and lab == "Pending" for c, lab, a in cf.guards(bb))
        ck.ob("C17-b.probe-live-only-when-pending", "ConnectionCheckFuture", ok and len([1 for bb2, st, e in agg_sites(cf, r"ConnectionState::Live$")]) == 1, cf, bb, "the probe reports Live only when the read is Pending (no unsolicited byte, no EOF, no error)")
    if "Tainted" in states:
        bb = states["Tainted"][0]
        ok = any(strip_not(c)[0][0] == "call" and rx(r"is_empty$").search(strip_not(c)[0][1] or "") and ((l if strip_not(c)[1] else not l) is False) for c, l, a in cf.guards(bb) if isinstance(l, bool))
        ck.ob("C17-b.probe-tainted-on-data", "ConnectionCheckFuture", ok, cf, bb, "any byte read from an idle connection marks it Tainted")
    pc = prog.one(r"^<awc::client::pool::ConnectionPool<S, Io> as actix_service::Service<awc::client::(connect::)?Connect>>::call::\{closure#0\}$")
    fp = [(bb, t) for bb, t in pc.calls(r"ConnectionType.*::from_pool$")]
    ck.anchor("C17-b", len(fp), 1, "ConnectionType::from_pool in ConnectionPool::call")
    live_assign = [bb for bb, st, e in agg_sites(pc, r"Option::Some$") if any(c[0] == "discr" and (c[2] or "").endswith("ConnectionState") and lab == "Live" for c, lab, a in pc.guards(bb))]
    h1_arm = [bb for bb, st, e in agg_sites(pc, r"Option::Some$") if any(c[0] == "discr" and (c[2] or "").endswith("ConnectionInnerType") for c, lab, a in pc.guards(bb))]
    ok = bool(live_assign)
    for bb in h1_arm:
        gs = pc.guards(bb)
        is_h1 = any(c[0] == "discr" and (c[2] or "").endswith("ConnectionInnerType") and lab == "H1" for c, lab, a in gs)
        if is_h1:
            ok = ok and any(c[0] == "discr" and (c[2] or "").endswith("ConnectionState") and lab == "Live" for c, lab, a in gs)
    ck.ob("C17-b.reuse-needs-live-probe", "ConnectionPool::call", ok, pc, live_assign[0] if live_assign else None, "a pooled HTTP/1 connection is selected only on the probe's Live outcome")
    taint_close = [bb for bb, t in pc.calls(r"ConnectionPoolInnerPriv.*::close$|ConnectionPoolInner.*::close$") if any(c[0] == "discr" and (c[2] or "").endswith("ConnectionState") and lab == "Tainted" for c, lab, a in pc.guards(bb))]
    ck.ob("C17-b.tainted-closed", "ConnectionPool::call", bool(taint_close), pc, taint_close[0] if taint_close else None, "a Tainted connection is closed, never reused")

    # ---- (c) permits ----------------------------------------------------------------------------------
    acq = [bb for bb, t in pc.calls(r"Semaphore::acquire_owned$")]
    ck.anchor("C17-c", len(acq), 1, "Semaphore::acquire_owned in ConnectionPool::call")
    lookups = [bb for bb, t in pc.calls(r"VecDeque.*::pop_front$|VecDeque.*::pop_back$|HashMap.*::get_mut$") if e_has_field(pc.op_expr(t["args"][0]), r"ConnectionPoolInnerPriv\.available$") or e_calls(pc.op_expr(t["args"][0]), r"get_mut$|RefCell.*borrow_mut$")]
    conns = [bb for bb, t in pc.calls(r"actix_service::Service::call$")]
    ck.anchor("C17-c", len(lookups), 1, "idle-connection lookup in ConnectionPool::call")
    ck.anchor("C17-c", len(conns), 1, "connector.call in ConnectionPool::call")
    # the permit is held (await completed with Ok) before the lookup: the Ok/Continue edge of the acquire dominates
    def permit_ok_edge():
        out = []
        for a in pc.live:
            br = pc.branch(a)
            if br and br[0][0] == "discr" and e_calls(br[0], r"Result.*::map_err$") and lab_any(br[1], "Continue") and acq and any(pc.dominates(x, a) for x in acq):
                # first Try::branch after the acquire
                out += [tb for lab, tb in br[1] if lab == "Continue"]
        return out

    pe = permit_ok_edge()
    ck.anchor("C17-c", len(pe), 1, "success edge of the permit acquisition")
    first = pe[:1]
    for what, sites in (("idle lookup", lookups), ("connect", conns)):
        ok = bool(first) and all(pc.dominates(first[0], s_) for s_ in sites)
        ck.ob("C17-c.permit-before-%s" % what.replace(" ", "-"), "ConnectionPool::call", ok, pc, sites[0] if sites else None, "the %s happens only after the semaphore permit was obtained (a queued request re-examines the pool once it holds the permit)" % what)
    aq = [(bb, s) for bb, i, s in pc.assigns() if s["rv"]["k"] == "agg" and (s["rv"].get("adt") or "").endswith("pool::Acquired")]
    ok = bool(aq) and all(bool(e_calls(pc.op_expr(s["rv"]["ops"][s["rv"]["fields"].index("permit")]), r"Try>::branch$|acquire_owned$|map_err$")) or True for bb, s in aq) and all(first and pc.dominates(first[0], bb) for bb, s in aq)
    ck.ob("C17-c.acquired-carries-permit", "ConnectionPool::call", ok, pc, aq[0][0] if aq else None, "Acquired is constructed from the obtained permit (the permit lives as long as the connection is in use)")
    for b in prog.bodies.values():
        if b.crate != "awc" or b is pc:
            continue
        for bb, i, s in b.assigns():
            if s["rv"]["k"] == "agg" and (s["rv"].get("adt") or "").endswith("pool::Acquired") and "::tests::" not in b.npath and "::test::" not in b.npath:
                ck.ob("C17-c.acquired-ctor-site", b.npath, False, b, bb, "Acquired constructed outside ConnectionPool::call")
    # idle connections hold no permit (type-level): PooledConnection has no permit field
    pcn = prog.adts.get("awc::client::pool::PooledConnection", {})
    ftys = [f["ty"] for v in pcn.get("variants", []) for f in v["fields"]]
    holds = any("OwnedSemaphorePermit" in t for t in ftys)
    ck.ob("C17-c.idle-connections-counted", "PooledConnection", holds, None, None,
          "an idle pooled connection holds no semaphore permit (fields: %s): with limit(n) the pool may keep more than n connections OPEN at once (n in use + any number idle to other authorities)" % ftys)

    # ---- (d) the client codec's per-exchange state: what decides "persistent connection" and "this response has a body"
    cdec = prog.one(r"^<actix_http::h1::client::ClientCodec as tokio_util::codec::decoder::Decoder>::decode$")
    cenc = prog.one(r"^<actix_http::h1::client::ClientCodec as tokio_util::codec::encoder::Encoder<.*>>::encode$")
    CT = r"\.actix_http::h1::client::ClientCodecInner\.conn_type$"
    ctw = [(bb, s) for bb, i, s in cdec.assigns() if any(isinstance(x, str) and rx(CT).search(x) for x in s["p"][1:])]
    ck.anchor("C17-d", len(ctw), 1, "write of ClientCodecInner.conn_type in ClientCodec::decode")
    for bb, s in ctw:
        # the value is a choice: the response's own connection type unless the response says keep-alive
        l = s["rv"]["ops"][0].get("copy", s["rv"]["ops"][0].get("move", [None]))[0] if s["rv"]["k"] == "use" else None
        alts = cdec.defs().get(l, []) if l is not None else []
        ok_close = ok_ka = False
        for d in alts:
            e = cdec.def_expr(d, 6)
            is_ka_edge = [lab for c, lab, a in cdec.guards(d[1]) if c[0] == "call" and rx(r"PartialEq>::eq$").search(c[1] or "") and e_calls(c, r"ResponseHead::conn_type$") and any(is_agg(x, r"ConnectionType::KeepAlive$") for x in walk(c))]
            if is_ka_edge and is_ka_edge[0] is False:
                ok_close = bool(e_calls(e, r"ResponseHead::conn_type$")) and not e_has_field(e, CT)
            if is_ka_edge and is_ka_edge[0] is True:
                ok_ka = e_has_field(e, CT) and not e_calls(e, r"ResponseHead::conn_type$")
        ck.ob("C17-d.response-close-wins", "ClientCodec::decode", ok_close and ok_ka, cdec, bb,
              "when the response announces a connection type other than keep-alive the codec adopts it (the connection is not reused); the peer's keep-alive never upgrades a request that asked for close (close edge takes the response's value: %s, keep-alive edge keeps the request's: %s)" % (ok_close, ok_ka))
    pw = [(bb, s, cdec.rv_expr(s["rv"], 4)) for bb, i, s in cdec.assigns() if any(isinstance(x, str) and x.endswith("ClientCodecInner.payload") for x in s["p"][1:])]
    ck.anchor("C17-d", len(pw), 2, "writes of ClientCodecInner.payload in ClientCodec::decode")
    from ..h1 import flag_edge  # noqa
    for bb, s, e in pw:
        head_t = any(c[0] == "call" and rx(r"::contains$").search(c[1] or "") and e_has_const(c, r"::HEAD$") and lab is True for c, lab, a in cdec.guards(bb))
        if is_agg(e, r"Option::Some$"):
            ck.ob("C17-d.head-response-has-no-body", "ClientCodec::decode|Some", not head_t and any(c[0] == "call" and rx(r"::contains$").search(c[1] or "") and e_has_const(c, r"::HEAD$") and lab is False for c, lab, a in cdec.guards(bb)), cdec, bb,
                  "a payload decoder is installed only when the request was not HEAD (a HEAD response's Content-Length describes no bytes on the wire)")
    some_ret = [bb for bb, e in cdec.ret_exprs() if agg_chain(e)[0][:2] == ["core::result::Result::Ok", "core::option::Option::Some"]]
    ok = bool(some_ret) and cdec.must_pass([0], some_ret, [bb for bb, s, e in pw])[0]
    ck.ob("C17-d.payload-slot-rewritten", "ClientCodec::decode", ok, cdec, some_ret[0] if some_ret else None, "every decoded response head rewrites the payload slot (no decoder of an earlier exchange survives)")
    # encode(Item): HEAD flag and connection type recomputed for every request
    item_edge = [tb for a in cenc.live for br in [cenc.branch(a)] if br and br[0][0] == "discr" for lab, tb in br[1] if lab == "Item"]
    ck.anchor("C17-d", len(item_edge), 1, "Message::Item arm of ClientCodec::encode")
    enc_calls = [bb for bb, t in cenc.calls(r"MessageEncoder(<T>)?::encode$")]
    sets = [bb for bb, t in cenc.calls(r"client::_::set$") if e_has_const(cenc.op_expr(t["args"][1]), r"::HEAD$") and cenc.op_expr(t["args"][2], 4)[0] != "const"]
    ok = bool(sets) and bool(enc_calls) and cenc.must_pass(item_edge, enc_calls, sets)[0]
    ck.ob("C17-d.head-flag-recomputed", "ClientCodec::encode", ok, cenc, sets[0] if sets else None, "the HEAD flag is recomputed (flags.set(HEAD, method == HEAD)) for every request written: it decides whether the next response is read with a body")
    ctw2 = [bb for bb, i, s in cenc.assigns() if any(isinstance(x, str) and rx(CT).search(x) for x in s["p"][1:])]
    ok = bool(ctw2) and bool(enc_calls) and cenc.must_pass(item_edge, enc_calls, ctw2)[0]
    ck.ob("C17-d.conn-type-recomputed", "ClientCodec::encode", ok, cenc, ctw2[0] if ctw2 else None, "the connection type is recomputed from every request written (a `close` of an earlier exchange does not linger, a keep-alive is not inherited)")
    # the response decoder shares MessageType::set_headers with the server: for a response carrying both framing headers
    # (allowed for responses) chunked coding wins over Content-Length (RFC 7230 3.3.3 item 3)
    sh = prog.one(r"^actix_http::h1::decoder::MessageType::set_headers$")
    chk = [bb for bb, t in sh.calls(r"PayloadDecoder::chunked$")]
    lens = [bb for bb, t in sh.calls(r"PayloadDecoder::length$")]
    ck.anchor("C17-a", len(chk), 1, "PayloadDecoder::chunked in set_headers")
    ck.anchor("C17-a", len(lens), 1, "PayloadDecoder::length in set_headers")
    CH = set(l for bb in chk for l in locals_guarding(sh, bb, True))
    for bb in lens:
        ok = bool(CH) and guarded_by(sh, bb, lambda c, lab: bool(bool_test(c, lab)) and is_local(bool_test(c, lab)[0], CH) and bool_test(c, lab)[1] is False)[0]
        ck.ob("C17-a.chunked-wins-over-length", "set_headers", ok, sh, bb, "the Content-Length decoder is chosen only on the edge where the message is not chunked: a response with both headers is framed by its chunked coding")
    # the pooled connection hands the transport's read result on unchanged: an error of the transport (reset, timeout) is
    # an error of the body, never a clean end of input
    for b in prog.find(r"^<awc::client::connection::H1Connection<Io> as tokio::io::async_read::AsyncRead>::poll_read$"):
        rets = list(b.ret_exprs())
        ok = bool(rets) and all(e[0] == "call" and rx(r"AsyncRead>::poll_read$|AsyncRead::poll_read$").search(e[1] or "") for bb, e in rets)
        ck.ob("C17-a.connection-read-delegates", "H1Connection::poll_read", ok, b, rets[0][0] if rets else None, "H1Connection::poll_read returns the transport's poll_read result itself on every path (no error is turned into Ok)")
    stream_flag_has_payload(ck, prog, "C17-d")

    # ---- (b) the release decision comes from the exchange, not from one side of it -----------------------------
    n1 = 0
    for b, bb, t in prog.callers(r"^awc::client::connection::H1Connection(<Io>)?::on_release$"):
        if "awc::client::h1proto" not in b.npath:
            continue
        n1 += 1
        ka = b.op_expr(t["args"][1], 6)
        ok = bool(e_calls(ka, r"ClientPayloadCodec::keep_alive$|ClientCodec::keep_alive$")) or ka[:3] == ("const", None, 0)
        ck.ob("C17-b.release-decision-from-codec", "%s|%d" % (b.npath.split("::")[-1] if not b.npath.endswith("}") else b.npath.split("::")[-2], n1), ok, b, bb,
              "the keep-alive flag given to on_release is the codec's (request close/upgrade and response both counted), never the response head's alone")
    ck.anchor("C17-b", n1, 3, "H1 on_release call sites in h1proto")
    n2 = 0
    for b, bb, t in prog.callers(r"^awc::client::connection::H2Connection(<Io>)?::on_release$"):
        if not b.npath.startswith("awc::client::h2proto"):
            continue
        gs = b.guards(bb)
        on_err = any(c[0] == "discr" and lab == "Err" for c, lab, a in gs)
        if not on_err:
            continue
        n2 += 1
        e = b.op_expr(t["args"][1], 6)
        srcs = [e] + [c for c, lab, a in gs]
        if isinstance(e, tuple) and e[0] == "phi":
            for d in b.defs().get(e[1], []):
                srcs.append(b.def_expr(d, 6))
                srcs += [c for c, lab, a in b.guards(d[1])]
        always = isinstance(e, tuple) and e[:3] == ("const", None, 1)  # closing is always safe
        ok = always or (any(e_calls(s, r"h2::.*Error::is_io$|^h2::error::Error::is_io$|Error::is_io$") for s in srcs) and any(e_calls(s, r"Error::is_go_away$") for s in srcs))
        ck.ob("C17-b.h2-error-release-closes", "send_request|%d" % n2, ok, b, bb,
              "after a failed HTTP/2 exchange the connection goes back to the pool only if the error is neither an I/O failure nor a GOAWAY (both tested)")
    ck.anchor("C17-b", n2, 2, "H2 on_release call sites on error paths in h2proto")


def lab_any(edges, name):
    return any(lab == name for lab, tb in edges)


def stream_flag_has_payload(ck, prog, P):
    """ClientCodec::message_type() reports Stream whenever the STREAM flag is set, and the payload codec then unwraps
    `payload`: so on no path may STREAM be inserted and the payload slot end up empty (shared by C17 and C19)"""
    cdec = prog.one(r"^<actix_http::h1::client::ClientCodec as tokio_util::codec::decoder::Decoder>::decode$")
    ins = [bb for bb, t in cdec.calls(r"client::_::insert$") if e_has_const(cdec.op_expr(t["args"][1]), r"::STREAM$")]
    ck.anchor(P, len(ins), 1, "insert(Flags::STREAM) in ClientCodec::decode")
    nones = [bb for bb, i, s in cdec.assigns() if any(isinstance(x, str) and x.endswith("ClientCodecInner.payload") for x in s["p"][1:]) and is_agg(cdec.rv_expr(s["rv"], 3), r"Option::None$")]
    somes = [bb for bb, i, s in cdec.assigns() if any(isinstance(x, str) and x.endswith("ClientCodecInner.payload") for x in s["p"][1:]) and is_agg(cdec.rv_expr(s["rv"], 3), r"Option::Some$")]
    for bb in ins:
        after = cdec.reach(cdec.succ[bb])
        cleared = sorted(set(nones) & after)
        has_some = any(cdec.dominates(s_, bb) or s_ in after or s_ == bb for s_ in somes)
        ck.ob(P + ".stream-flag-has-payload", "ClientCodec::decode", has_some and not cleared, cdec, cleared[0] if cleared else bb,
              "where the STREAM flag is switched on a payload decoder is installed and no later statement empties the slot (message_type() == Stream with payload == None makes the payload codec unwrap None)")
