"""C14 — WebSocket frame codec and handshake."""
from ..rules import *  # noqa

EXPLANATION = (
    "Static rules over actix_http::ws: (a) in Parser::parse every need-more return (`Ok(None)`) taken once the header "
    "announced a payload length is dominated by the false edge of `length > max_size` — an oversized frame is refused "
    "before it is buffered; (b) need-more returns are reached without consuming input; (c) the opcode tables "
    "u8->OpCode and OpCode->u8 are mutually inverse and equal the RFC 6455 table, the length-marker thresholds of "
    "the writer (<126, <=65535, else) agree with the reader's markers 126/127 and field widths 2/8, every wide read is "
    "dominated by its has-enough-bytes test, both masking mismatches are rejected, the frame length is computed with "
    "checked_add; (d) Ping/Pong longer than 125 bytes and fragmented control frames are rejected, the CONTINUATION / "
    "W_CONTINUATION flags are inserted only on a first-fragment arm under !contains, removed only on the last-fragment "
    "arm under contains, and every arm that starts or continues a data message tests the flag; (e) the handshake "
    "rejects each malformed upgrade and the accept key hashes key||GUID with the RFC GUID into 28 base64 bytes. "
    "Round-trip equality of payload bytes and the masking arithmetic are value-level facts and are not decided."
)
RULES = (
    "guarded-site, never-reach (consumption before need-more), switch-table extraction and table agreement against "
    "RFC 6455 reference constants, flag effect sets. Non-trivial = a site whose verdict needed a dominance query."
)

RFC_OPCODES = {0: "Continue", 1: "Text", 2: "Binary", 8: "Close", 9: "Ping", 10: "Pong"}
WS_GUID = "258EAFA5-E914-47DA-95CA-C5AB0DC85B11"
CONSUME = r"bytes::bytes_mut::BytesMut::(split_to|split|split_off|advance|clear|truncate)$|Buf>::advance$|Buf::advance$"


def flag_test(c):
    """(flag_const_name, truth_if_cond_true) for `x.flags.contains(FLAG)` conditions"""
    c2, tr = strip_not(c, True)
    if c2[0] == "call" and rx(r"::contains$").search(c2[1] or "") and len(c2[2]) == 2 and c2[2][1][0] == "const" and c2[2][1][1]:
        return c2[2][1][1].split("::")[-1], tr
    return None


def flag_guards(b, bb):
    """{flag: value} established on every path to bb"""
    out = {}
    for c, lab, a in b.guards(bb):
        ft = flag_test(c)
        if ft and isinstance(lab, bool):
            out[ft[0]] = lab if ft[1] else (not lab)
    return out


def run(ck, prog, tier, load):
    parse = prog.one(r"^actix_http::ws::frame::Parser::parse$")
    meta = prog.one(r"^actix_http::ws::frame::Parser::parse_metadata$")

    # ---- (a) refuse before buffering ------------------------------------
    nm = ret_sites(parse, lambda e: agg_chain(e)[0][:2] == ["core::result::Result::Ok", "core::option::Option::None"])
    ck.anchor("C14-a", len(nm), 2, "`Ok(None)` returns in Parser::parse")
    n_len = 0
    for bb, e in nm:
        gs = parse.guards(bb)
        header_incomplete = any(c[0] == "discr" and e_calls(c, r"Parser::parse_metadata$") and lab == "None" for c, lab, a in gs)
        if header_incomplete:
            ck.ob("C14-a.need-more-header", parse.npath, True, parse, bb, "need-more because the frame header itself is incomplete (no length known yet)", nontrivial=False)
            continue
        n_len += 1
        ok = False
        for c, lab, a in gs:
            n = norm_cmp(c, lab) if isinstance(lab, bool) else None
            if n and n[0] == "Le" and n[3] is True and e_calls(n[1], r"Parser::parse_metadata$") and root_is(n[2], args_of_type(parse, r"^usize$")) and not e_calls(n[2]):
                ok = True
        ck.ob("C14-a.refuse-before-buffering", parse.npath, ok, parse, bb,
              "need-more return with a known payload length is dominated by `length <= max_size` (else the caller keeps buffering an oversized frame)")
    ck.anchor("C14-a", n_len, 1, "need-more return after the length is known")
    # oversized complete frame is an error too
    ov = [bb for bb, e in ret_sites(parse, lambda e: is_agg(e, r"Result::Err$") and is_agg(e[3][0], r"ProtocolError::Overflow$"))]
    ck.anchor("C14-a", len(ov), 2, "Err(Overflow) returns in Parser::parse")
    # every frame delivered (Ok(Some)) is dominated by length <= max_size or length == 0
    for bb, e in ret_sites(parse, lambda e: agg_chain(e)[0][:2] == ["core::result::Result::Ok", "core::option::Option::Some"]):
        ok = False
        for c, lab, a in parse.guards(bb):
            n = norm_cmp(c, lab) if isinstance(lab, bool) else None
            if n and n[0] == "Le" and n[3] is True and e_calls(n[1], r"parse_metadata$") and root_is(n[2], args_of_type(parse, r"^usize$")):
                ok = True
        ck.ob("C14-a.delivered-within-max", "%s|%s" % (parse.npath, short(e, 3)), ok, parse, bb, "a delivered frame is dominated by `length <= max_size`")

    # ---- (b) purity of need-more ------------------------------------------
    cons = [bb for bb, t in parse.calls(CONSUME)]
    ck.anchor("C14-b", len(cons), 2, "consuming calls in Parser::parse")
    for bb, e in nm:
        bad = [c for c in cons if bb in parse.reach([c])]
        ck.ob("C14-b.need-more-pure", "%s|%d" % (parse.npath, nm.index((bb, e))), not bad, parse, bb, "`Ok(None)` is unreachable from any consuming call on the input buffer")
    ck.ob("C14-b.metadata-readonly", meta.npath, meta.lty(1).startswith("&[u8]"), meta, None, "parse_metadata takes the input as &[u8] (cannot consume)", nontrivial=False)

    # ---- (c) tables ---------------------------------------------------------
    f_u8 = prog.one(r"^<actix_http::ws::proto::OpCode as core::convert::From<u8>>::from$")
    t_u8 = prog.one(r"impl core::convert::From<actix_http::ws::proto::OpCode> for u8>::from$")
    dec = {}
    for bb, e in f_u8.ret_exprs():
        if e[0] != "agg":
            continue
        v = e[2].split("::")[-1]
        for c, lab, a in f_u8.guards(bb):
            if c[0] == "arg":
                dec[lab] = v
    want = dict(RFC_OPCODES)
    want["otherwise"] = "Bad"
    ck.ob("C14-c.opcode-decode-table", f_u8.npath, dec == want, f_u8, None, "u8 -> OpCode table %s == RFC 6455 table + everything else Bad" % dec)
    enc = {}
    for bb, e in t_u8.ret_exprs():
        if e[0] == "const" and e[2] is not None:
            for c, lab, a in t_u8.guards(bb):
                if c[0] == "discr" and isinstance(lab, str):
                    enc[lab] = e[2]
    inv = {v: k for k, v in RFC_OPCODES.items()}
    ok = all(enc.get(k) == v for k, v in inv.items()) and set(enc) <= set(inv) | {"Bad"}
    ck.ob("C14-c.opcode-encode-table", t_u8.npath, ok, t_u8, None, "OpCode -> u8 table %s is the inverse of the decode table" % enc)
    # reserved opcode rejected by the parser
    bad = ret_sites(meta, lambda e: is_agg(e, r"Result::Err$") and is_agg(e[3][0], r"ProtocolError::InvalidOpcode$"))
    okb = bool(bad) and any(c[0] == "discr" and e_calls(c, r"From<u8>>::from$") and lab == "Bad" for c, lab, a in meta.guards(bad[0][0]))
    ck.ob("C14-c.reserved-opcode-rejected", meta.npath, okb, meta, bad[0][0] if bad else None, "OpCode::Bad => Err(InvalidOpcode) in parse_metadata")
    # masking mismatches
    for name in ("UnmaskedFrame", "MaskedFrame"):
        rs = ret_sites(meta, lambda e: is_agg(e, r"Result::Err$") and is_agg(e[3][0], r"ProtocolError::%s$" % name))
        okm = False
        if rs:
            gs = meta.guards(rs[0][0])
            okm = any(root_is(c, args_of_type(meta, r"^bool$")) for c, lab, a in gs) and any(e_bins(c, ("BitAnd",)) for c, lab, a in gs)
        ck.ob("C14-c.masking-%s" % name, meta.npath, okm, meta, rs[0][0] if rs else None, "Err(%s) under a test of the mask bit and of the role" % name)
    # wide length fields: marker, width, has-enough-bytes
    for fn, marker, minlen in ((r"core::num::<impl u16>::from_be_bytes$", 126, 4), (r"core::num::<impl u64>::from_be_bytes$", 127, 10)):
        cs = [bb for bb, t in meta.calls(fn)]
        ck.anchor("C14-c", len(cs), 1, "%s in parse_metadata" % fn)
        for bb in cs:
            gm = ge = False
            for c, lab, a in meta.guards(bb):
                if not isinstance(lab, bool) and isinstance(lab, int) and lab == marker and e_bins(c, ("BitAnd",)):
                    gm = True  # `match second & 0x7F { 126 => .. }`: the arm of an integer switch
                n = norm_cmp(c, lab) if isinstance(lab, bool) else None
                if not n:
                    continue
                if n[0] == "Eq" and n[3] is True and n[2][:3] == ("const", None, marker):
                    gm = True
                if n[0] == "Lt" and n[3] is False and n[2][:3] == ("const", None, minlen) and e_calls(n[1], r"len$"):
                    ge = True
                if n[0] == "Le" and n[3] is True and n[1][:3] == ("const", None, minlen) and e_calls(n[2], r"len$"):
                    ge = True  # the mirrored spelling `!(10 > len)`
            ck.ob("C14-c.len-marker-%d" % marker, meta.npath, gm and ge, meta, bb, "wide length read under marker == %d (%s) and src.len() >= %d (%s)" % (marker, gm, minlen, ge))
    wm = prog.one(r"^actix_http::ws::frame::Parser::write_message$")
    for fn, want_g in ((r"BufMut::put_u16$|put_u16$", {126: False, 65535: True}), (r"BufMut::put_u64$|put_u64$", {126: False, 65535: False})):
        cs = [bb for bb, t in wm.calls(fn)]
        ck.anchor("C14-c", len(cs), 1, "%s in write_message" % fn)
        for bb in cs:
            got = {}
            for c, lab, a in wm.guards(bb):
                n = norm_cmp(c, lab) if isinstance(lab, bool) else None
                if n and n[2][0] == "const" and n[2][2] in (126, 65535) and n[0] in ("Lt", "Le"):
                    got[n[2][2]] = n[3]
            ck.ob("C14-c.writer-threshold", "%s|%s" % (wm.npath, fn.split("$")[0][-7:]), got == want_g, wm, bb, "writer length-class guard %s (want %s)" % (got, want_g))
            # the length announced is the length of the payload that is written, nothing added to it
            amt = wm.op_expr(wm.term(bb)["args"][1], 8)
            plain = bool(e_calls(amt, r"::len$")) and not e_bins(amt, ("Add", "AddWithOverflow", "Sub", "SubWithOverflow", "Mul", "MulWithOverflow")) and not any(x[0] == "phi" for x in walk(amt))
            ck.ob("C14-c.writer-length-is-payload-length", "%s|%s" % (wm.npath, fn.split("$")[0][-7:]), plain, wm, bb, "the extended length field carries payload.len() itself (no header/mask allowance added): %s" % short(amt, 4))
    # frame length arithmetic
    ca = [bb for bb, t in parse.calls(r"checked_add$")]
    ck.ob("C14-c.frame-len-checked", parse.npath, len(ca) >= 1, parse, ca[0] if ca else None, "idx + length computed with checked_add (None => Err(Overflow))")

    # ---- (d) control frames and continuation state ---------------------------
    il = ret_sites(parse, lambda e: is_agg(e, r"Result::Err$") and is_agg(e[3][0], r"ProtocolError::InvalidLength$"))
    okc = False
    if il:
        g_len = guarded_by(parse, il[0][0], cmp_pred("Le", lambda e: bool(e_calls(e, r"parse_metadata$")), is_const_int(125), False))[0]
        g_op = guarded_by(parse, il[0][0], lambda c, lab: c[0] == "discr" and c[2] == "actix_http::ws::proto::OpCode" and labels_in(lab, ("Ping", "Pong")))[0]
        okc = g_len and g_op
    ck.ob("C14-d.control-length", parse.npath, okc, parse, il[0][0] if il else None, "Ping/Pong with length > 125 => Err(InvalidLength)")
    # converse: with opcode == Ping (Pong) and length > 125 no payload-carrying frame can be returned
    data_rets = [bb for bb, e in parse.ret_exprs() if agg_chain(e)[0][:2] == ["core::result::Result::Ok", "core::option::Option::Some"] and any(is_agg(x, r"Option::Some$") and e_calls(x, r"split_to$") for x in walk(e))]
    ck.anchor("C14-d", len(data_rets), 1, "payload-carrying Ok(Some(..)) return in Parser::parse")
    for op in ("Ping", "Pong"):
        r, _ = reach_under(parse, [
            lambda c, lab, op=op: c[0] == "discr" and c[2] == "actix_http::ws::proto::OpCode" and not label_may_be(lab, op),
            cmp_pred("Le", lambda e: bool(e_calls(e, r"parse_metadata$")), is_const_int(125), True),
        ])
        bad = [bb for bb in data_rets if bb in r]
        ck.ob("C14-d.control-length-all", op, not bad, parse, bad[0] if bad else None, "assuming opcode == %s and length > 125, no payload-carrying frame is reachable" % op)

    decode = prog.one(r"^<actix_http::ws::codec::Codec as tokio_util::codec::decoder::Decoder>::decode$")
    encode = prog.one(r"^<actix_http::ws::codec::Codec as tokio_util::codec::encoder::Encoder<actix_http::ws::codec::Message>>::encode$")

    def frame_kind(e):
        """('Continuation','FirstText') / ('Text',None) ... for Ok(Some(Frame::X(..)))"""
        names, inner = agg_chain(e)
        if names[:2] != ["core::result::Result::Ok", "core::option::Option::Some"] or len(names) < 3:
            return None
        k = names[2].split("::")[-1]
        sub = names[3].split("::")[-1] if len(names) > 3 and "Item::" in names[3] else None
        return k, sub

    # finished flag = first tuple field of the parse result tested as a bool
    def fin_value(b, bb):
        for c, lab, a in b.guards(bb):
            c2, tr = strip_not(c, True)
            if c2[0] == "place" and e_calls(c2, r"Parser::parse$") and isinstance(lab, bool) and not flag_test(c):
                return lab if tr else (not lab)
        return None

    def opcode_labels(b, bb):
        out = None
        for c, lab, a in b.guards(bb):
            if c[0] == "discr" and e_calls(c, r"Parser::parse$") and c[2] == "actix_http::ws::proto::OpCode":
                if isinstance(lab, str):
                    s = {lab}
                elif isinstance(lab, tuple) and lab[0] == "otherwise":
                    s = set(lab[1])
                elif isinstance(lab, tuple) and lab[0] == "oneof":
                    s = set()
                    for l2 in lab[1]:
                        s |= {l2} if isinstance(l2, str) else set(l2[1])
                else:
                    continue
                out = s if out is None else (out & s)
        return out

    n_frames = 0
    for bb, e in decode.ret_exprs():
        fk = frame_kind(e)
        if not fk:
            continue
        n_frames += 1
        fin = fin_value(decode, bb)
        ops = opcode_labels(decode, bb)
        fl = flag_guards(decode, bb)
        kind, sub = fk
        key = "%s%s|fin=%s" % (kind, "/" + sub if sub else "", fin)
        if fin is False:
            ck.ob("C14-d.fragment-opcode", key, ops is not None and ops <= {"Continue", "Text", "Binary"}, decode, bb,
                  "an unfinished frame is delivered only for opcodes Continue/Text/Binary (got %s): fragmented control frames are rejected" % sorted(ops or []))
        if kind == "Continuation":
            want = {"FirstText": False, "FirstBinary": False, "Continue": True, "Last": True}.get(sub)
            ck.ob("C14-d.continuation-flag-tested", key, fl.get("CONTINUATION") is want, decode, bb,
                  "Frame::Continuation(%s) delivered only with CONTINUATION == %s (established: %s)" % (sub, want, fl.get("CONTINUATION")))
        if kind in ("Text", "Binary"):
            ck.ob("C14-d.data-inside-fragmented", key, fl.get("CONTINUATION") is False, decode, bb,
                  "a complete %s frame is delivered only when no fragmented message is in progress (CONTINUATION tested false; established: %s)" % (kind, fl.get("CONTINUATION")))
    ck.anchor("C14-d", n_frames, 5, "frame-producing returns in Codec::decode")

    def flag_effects(b, flag, rule):
        n = 0
        for bb, t in b.calls(r"actix_http::ws::codec::_::(insert|remove|set|toggle)$"):
            e = b.op_expr(t["args"][1])
            if not (e[0] == "const" and e[1] and e[1].endswith("::" + flag)):
                continue
            n += 1
            m = cname(t).split("::")[-1]
            cur = flag_guards(b, bb).get(flag)
            ok = (m == "insert" and cur is False) or (m == "remove" and cur is True)
            ck.ob(rule, "%s|%s|under %s" % (b.npath.split(">::")[-1], m, cur), ok, b, bb, "Flags::%s(%s) under contains(%s)==%s" % (m, flag, flag, cur))
        return n

    n1 = flag_effects(decode, "CONTINUATION", "C14-d.flag-effect")
    ck.anchor("C14-d", n1, 2, "insert/remove of Flags::CONTINUATION in decode")
    n2 = flag_effects(encode, "W_CONTINUATION", "C14-d.flag-effect")
    ck.anchor("C14-d", n2, 2, "insert/remove of Flags::W_CONTINUATION in encode")
    # first-fragment arms set the flag before delivering; last arm clears it
    for bb, e in decode.ret_exprs():
        fk = frame_kind(e)
        if fk and fk[0] == "Continuation" and fk[1] in ("FirstText", "FirstBinary", "Last"):
            m = "insert" if fk[1] != "Last" else "remove"
            ok = any(is_call(decode.term(d), r"codec::_::%s$" % m) for d in decode.dominators(bb))
            ck.ob("C14-d.flag-updated", "decode|%s" % fk[1], ok, decode, bb, "%s arm performs Flags::%s(CONTINUATION) before delivering" % (fk[1], m))
    # nobody else writes the flags
    for b, bb, t, m in method_calls_on_field(prog, r"\.actix_http::ws::codec::Codec\.flags$", ["actix_http"]):
        if m in ("insert", "remove", "set", "toggle"):
            e = b.op_expr(t["args"][1])
            fl = e[1].split("::")[-1] if e[0] == "const" and e[1] else "?"
            ok = (b is decode and fl == "CONTINUATION") or (b is encode and fl == "W_CONTINUATION") or (fl == "SERVER" and b.npath.endswith("client_mode"))
            ck.ob("C14-d.flag-writer", "%s|%s|%s" % (b.npath, m, fl), ok, b, bb, "Codec.flags.%s(%s) in %s" % (m, fl, b.npath), nontrivial=False)
    # encoder: every write_message with a continuation opcode / fin=false is flag-guarded
    n_w = 0
    for bb, t in encode.calls(r"Parser::write_message$"):
        op = encode.op_expr(t["args"][2])
        fin = encode.op_expr(t["args"][3])
        opn = op[2].split("::")[-1] if op[0] == "agg" else None
        finv = fin[2] if fin[0] == "const" else None
        cur = flag_guards(encode, bb).get("W_CONTINUATION")
        if opn == "Continue":
            n_w += 1
            ck.ob("C14-d.encode-continue-guarded", "%s|fin=%s" % (opn, finv), cur is True or any(is_call(encode.term(d), r"codec::_::remove$") for d in encode.dominators(bb)), encode, bb, "continuation frame written only while W_CONTINUATION is set")
        elif finv == 0:
            n_w += 1
            ok = any(is_call(encode.term(d), r"codec::_::insert$") for d in encode.dominators(bb))
            ck.ob("C14-d.encode-first-guarded", "%s|fin=0" % opn, ok, encode, bb, "first fragment written only after W_CONTINUATION was found clear and set")
    ck.anchor("C14-d", n_w, 2, "fragment writes in Codec::encode")

    # ---- (e) handshake --------------------------------------------------------
    vh = prog.one(r"^actix_http::ws::verify_handshake$")
    want_err = ["GetMethodRequired", "NoWebsocketUpgrade", "NoConnectionUpgrade", "NoVersionHeader", "UnsupportedVersion", "BadWebsocketKey"]
    got = {}
    for bb, e in vh.ret_exprs():
        if is_agg(e, r"Result::Err$") and e[3] and e[3][0][0] == "agg":
            got[e[3][0][2].split("::")[-1]] = bb
    for w in want_err:
        ck.ob("C14-e.handshake-reject", w, w in got, vh, got.get(w), "verify_handshake has a rejecting exit HandshakeError::%s" % w, nontrivial=False)
    oks = ret_sites(vh, lambda e: is_agg(e, r"Result::Ok$"))
    # the Ok exit is dominated by the passing edge of each of the six tests
    for bb, e in oks:
        gs = vh.guards(bb)
        tests = {
            "method==GET": any(e_has_const(c, r"Method::GET$") for c, l, a in gs),
            "upgrade header": any(any(r[0] in ("var", "phi") for r in e_roots(c)) for c, l, a in gs),
            "connection upgrade": any(e_calls(c, r"RequestHead::upgrade$") for c, l, a in gs),
            "version present": any(e_calls(c, r"contains_key$") and e_has_const(c, r"SEC_WEBSOCKET_VERSION$") for c, l, a in gs),
            "key present": any(e_calls(c, r"contains_key$") and e_has_const(c, r"SEC_WEBSOCKET_KEY$") for c, l, a in gs),
        }
        for k, v in tests.items():
            ck.ob("C14-e.accept-dominated", k, v, vh, bb, "Ok(()) is dominated by the passing edge of the `%s` test" % k)
    # RFC 6455 4.2.1: the Upgrade token is matched case-insensitively. Every comparison with the literal "websocket" in the
    # handshake check either folds case first or is itself case-insensitive
    n_ws = 0
    for b2 in prog.with_closures(vh):
        for bb2, t2 in b2.calls(None):
            args = [b2.op_expr(a_, 6) for a_ in t2.get("args", [])]
            if not any(x[0] == "const" and x[3] == "websocket" for a_ in args for x in walk(a_)):
                continue
            n_ws += 1
            nm = cname(t2)
            folded = bool(rx(r"eq_ignore_ascii_case$").search(nm)) or any(e_calls(a_, r"to_ascii_lowercase$|to_lowercase$|make_ascii_lowercase$") for a_ in args)
            ck.ob("C14-e.upgrade-token-case-insensitive", "%s|%s" % (b2.npath.split("::")[-1], nm.split("::")[-1]), folded, b2, bb2,
                  "the Upgrade header is compared with `websocket` case-insensitively (to_ascii_lowercase / eq_ignore_ascii_case): `Upgrade: WebSocket` is a well-formed handshake")
    ck.anchor("C14-e", n_ws, 1, "comparison with the literal \"websocket\" in verify_handshake")
    vers = sorted(c[3] for b2 in prog.with_closures(vh) for bb, t in b2.calls(r"PartialEq<str>>::eq$|PartialEq<&str>>::eq$|HeaderValue.*eq$") for c in [b2.op_expr(t["args"][1])] if c[0] == "const" and c[3] is not None)
    ck.ob("C14-e.versions", "13,8,7", set(vers) == {"13", "8", "7"} or set(vers) >= {"13"} and set(vers) <= {"13", "8", "7"}, vh, None, "accepted Sec-WebSocket-Version values: %s" % vers)
    hk = prog.one(r"^actix_http::ws::proto::hash_key$")
    upd = [hk.op_expr(t["args"][1]) for bb, t in hk.calls(r"Update>::update$|Digest>::update$|::update$")]
    guid_ok = False
    g = prog.nbodies.get("actix_http::ws::proto::WS_GUID", [None])[0]
    if g is not None:
        for bb, e in g.ret_exprs():
            guid_ok = guid_ok or any(c[3] == WS_GUID for c in e_consts(e))
    order_ok = len(upd) == 2 and any(r[0] == "arg" for r in e_roots(upd[0])) and e_has_const(upd[1], r"WS_GUID$")
    ck.ob("C14-e.accept-key", hk.npath, guid_ok and order_ok, hk, None, "hash_key = SHA1(key || WS_GUID) with WS_GUID == RFC 6455 GUID (%s), update order key,GUID (%s)" % (guid_ok, order_ok))
    ck.ob("C14-e.accept-key-len", hk.npath, hk.lty(0) == "[u8; 28]" and bool(list(hk.calls(r"encode_slice$"))), hk, None, "accept key is base64 of the 20-byte digest: [u8; 28]", nontrivial=False)
    # masking: the aligned fast paths split the payload into (prefix, words, suffix); after a prefix of n bytes the mask
    # continues rotated by n, so words AND suffix must use the rotated mask; only the prefix uses the mask as given
    n_m = 0
    for b in prog.in_file("actix-http/src/ws/mask.rs"):
        if "::tests::" in b.npath:
            continue
        al = [bb for bb, t in b.calls(r"align_to_mut$")]
        if not al:
            continue
        for bb, t in b.calls(r"apply_mask_fallback$"):
            part = b.op_expr(t["args"][0], 5)
            which = [p_ for x in walk(part) if x[0] == "place" for p_ in x[2] if isinstance(p_, str) and p_ in (".0", ".1", ".2")]
            m = b.op_expr(t["args"][1], 6)
            raw = m[0] == "arg"
            if which and which[-1] == ".2":
                n_m += 1
                ck.ob("C14-f.suffix-uses-rotated-mask", b.npath.split("::")[-1], not raw and (bool(e_calls(m, r"to_ne_bytes$|rotate_left$|rotate_right$")) or m[0] in ("var", "phi", "agg", "place", "call")), b, bb,
                      "the bytes after the aligned words are masked with the rotated mask (the mask as given is only right for the unaligned prefix): %s" % short(m, 4))
            elif which and which[-1] == ".0":
                ck.ob("C14-f.prefix-uses-given-mask", b.npath.split("::")[-1], raw, b, bb, "the unaligned prefix is masked with the mask as given: %s" % short(m, 4))
    ck.anchor("C14-f", n_m, 1, "masking of the unaligned suffix in the aligned fast path(s)")
