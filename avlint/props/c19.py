"""C19 — no peer-controlled input makes the library panic: arithmetic and explicit-panic discipline."""
import os

from ..rules import *  # noqa

EXPLANATION = (
    "Slice-bound safety of the look-ahead scanners, `unwrap` on options that depend on peer data in ways the type "
    "system hides, and loop termination are NOT decided (they need value reasoning). Decided over the built MIR, which "
    "still contains rustc's Assert(Overflow) terminators: in the peer-facing parsing code (h1 decoder/chunked/encoder, "
    "ws frame/codec, multipart, actix-files named/range/chunked, router path/quoter/url, typed Range and "
    "Content-Disposition headers) EVERY overflow-checked subtraction must be justified on every path by one of the "
    "idioms this code base uses — a dominating comparison of the same two operands in the safe direction, a subtrahend "
    "clamped by cmp::min(_, minuend), a `- 1` under a non-zero test of the minuend, a byte minus a constant inside the "
    "matching byte-range arm — or be listed in the reasoned table below; every overflow-checked addition / "
    "multiplication / shift with an operand derived from a wire-integer source (str::parse, from_be_bytes, "
    "from_str_radix, to_digit, the parsed range and length fields) must be guarded, use checked/saturating arithmetic "
    "upstream, or be listed with its reason; narrowing `as` casts of wire integers are listed. Additionally (b) the "
    "unsafe header writer of h1::encoder advances its cursor, its remaining-capacity counter and its raw pointer by the "
    "same sum of lengths it wrote, and re-derives the pointer after every reserve."
)
RULES = "wire-integer taint + guarded-site over rustc's overflow assertions; reasoned exception table (exact keys); linear accounting of the unsafe writer."

FILES = (
    "actix-http/src/h1/decoder.rs", "actix-http/src/h1/chunked.rs", "actix-http/src/h1/encoder.rs",
    "actix-http/src/ws/frame.rs", "actix-http/src/ws/codec.rs", "actix-http/src/ws/proto.rs", "actix-http/src/ws/mask.rs",
    "actix-multipart/src/multipart.rs", "actix-multipart/src/field.rs", "actix-multipart/src/payload.rs",
    "actix-files/src/named.rs", "actix-files/src/range.rs", "actix-files/src/chunked.rs",
    "actix-router/src/path.rs", "actix-router/src/quoter.rs", "actix-router/src/url.rs",
    "actix-web/src/http/header/content_disposition.rs", "actix-web/src/http/header/range.rs", "actix-web/src/http/header/entity.rs", "actix-web/src/http/header/if_range.rs", "actix-web/src/http/header/content_range.rs", "actix-web/src/info.rs", "actix-web/src/types/query.rs",
    "actix-http/src/header/utils.rs", "actix-http/src/header/shared/quality.rs", "actix-http/src/header/shared/quality_item.rs",
    "actix-http/src/header/shared/extended.rs", "actix-http/src/header/shared/http_date.rs", "actix-http/src/header/shared/charset.rs",
)
WIRE = r"core::str::parse$|FromStr>::from_str$|::from_be_bytes$|::from_le_bytes$|::from_str_radix$|char::methods::to_digit$|to_digit$"
WIRE_FIELDS = r"HttpRange\.(start|length)$|decoder::Kind::Length\.0$|decoder::Kind::Chunked\.1$|ByteRangeSpec::(FromTo|From|Last)\.\d$|InnerField\.length$"
# tainted parameters (confirmed by reading the callers): function suffix -> parameter TYPE (names are not used)
WIRE_PARAMS = {
    "ChunkedState::read_size": r"^(&mut )?u64$", "ChunkedState::read_body": r"^(&mut )?u64$", "ChunkedState::read_size_lf": r"^(&mut )?u64$",
    "InnerField::read_len": r"^(&mut )?u64$",
}

# reasoned exceptions, exact keys (function | op | canonical operands)
TABLE = {
    "ChunkedState::read_size|Add|<arg:&mut u64>+<var:u8>": "n = size*16 was produced by checked_mul(16) on the dominating edge, so n <= MAX-15 and the digit value is < 16: the sum cannot overflow",
    "HeaderIndex::record|Sub|ptr-ptr": "pointer difference of a sub-slice that httparse returned from the same buffer (name/value lie inside `bytes`)",
    "NamedFile::etag|*|*": "file modification time from the local file system, not peer input",
    "NamedFile::into_response|Add|<var:u64>+<var:u64>": "http_range::HttpRange::parse only returns ranges with start + length <= size (the file length passed to it): contract of the external crate",
    "encode_headers::{closure#0}|Sub|<arg:&mut {closure}>.^+(….0 AddWithOverflow 4).0": "`remaining - len` in the unsafe header writer: on the `len > remaining` edge `remaining` is recomputed as capacity - len after dst.reserve(len * 2), so remaining >= 2*len; on the other edge len <= remaining was just tested (the linear-accounting rule C19-b checks the writer's cursor arithmetic separately)",
}


# reasoned exceptions of the indexing rule, exact keys: function | shape of the index
SLICE_TABLE = {
    "write_camel_case|0": "response header NAMES come from the application, not from the peer; `buffer` was just initialised from `value` (same length by the function's safety contract) and this line runs only after `value.iter().next()` returned Some, so it is non-empty",
}


def tainted(b, e):
    if e_calls(e, WIRE):
        return True
    for x in walk(e):
        if x[0] == "place" and any(isinstance(p, str) and rx(WIRE_FIELDS).search(p) for p in x[2]):
            return True
    for suffix, ty_pat in WIRE_PARAMS.items():
        if b.npath.endswith(suffix):
            if root_is(e, args_of_type(b, ty_pat)):
                return True
    return False


def strip(e):
    while isinstance(e, tuple) and e[0] == "cast":
        e = e[1]
    return e


def same(a, b_):
    a, b_ = strip(a), strip(b_)
    return canon(a, 6) == canon(b_, 6) or (ident(a) is not None and ident(a) == ident(b_))


def ident(e):
    if not isinstance(e, tuple):
        return None
    if e[0] == "place":
        x = ident(e[1])
        return None if x is None else ("place", x, e[2])
    if e[0] == "call":
        return ("call", e[1], e[3])
    if e[0] in ("arg", "var", "phi"):
        return ("local", e[1])
    return None


def sub_justified(b, bb, a, s):
    """a - s at block bb: is it safe on every path?"""
    a0, s0 = strip(a), strip(s)
    # clamp: s = min(x, a) / min(a, x)
    if s0[0] == "call" and rx(r"core::cmp::min$|Ord>::min$|::min$").search(s0[1] or "") and any(same(x, a0) for x in s0[2]):
        return "subtrahend clamped by min(_, minuend)"
    # constant 1 (or k) under non-zero / >= k test of the minuend
    if s0[0] == "const" and s0[2] is not None:
        k = s0[2]
        def nz(c, lab):
            if not isinstance(lab, bool):
                # integer switch on the minuend: the `0` edge excluded
                if isinstance(lab, int) or lab == "otherwise":
                    return same(strip(c), a0) and lab == "otherwise"
                return False
            n = norm_cmp(c, lab)
            if not n:
                return False
            op, x, y, truth = n
            x, y = strip(x), strip(y)
            if op == "Eq" and truth is False and ((same(x, a0) and y[0] == "const" and y[2] == 0) or (same(y, a0) and x[0] == "const" and x[2] == 0)) and k == 1:
                return True
            if op == "Lt" and truth is True and x[0] == "const" and x[2] is not None and x[2] >= k - 1 and same(y, a0):
                return True   # c < a
            if op == "Le" and truth is True and x[0] == "const" and x[2] is not None and x[2] >= k and same(y, a0):
                return True   # c <= a
            if op == "Le" and truth is False and y[0] == "const" and y[2] is not None and y[2] >= k - 1 and same(x, a0):
                return True   # !(a <= c)
            if op == "Lt" and truth is False and y[0] == "const" and y[2] is not None and y[2] >= k and same(x, a0):
                return True   # !(a < c)
            return False
        if guarded_by(b, bb, nz)[0]:
            return "minuend tested >= %d on every path" % k
        # byte minus constant inside a range arm: Le(const k', a) true with k' >= k
    # (x + k1) - k2 with x tested >= k2 - k1 (byte arithmetic inside a range arm: b + 10 - b'a')
    if s0[0] == "const" and s0[2] is not None and a0[0] == "place" and a0[1][0] == "bin" and a0[1][1] in ("Add", "AddWithOverflow"):
        x_, k1 = strip(a0[1][2]), strip(a0[1][3])
        if k1[0] == "const" and k1[2] is not None:
            need = s0[2] - k1[2]
            def lo(c, lab):
                if not isinstance(lab, bool):
                    return False
                n = norm_cmp(c, lab)
                if not n:
                    return False
                op, p_, q_, truth = n
                p_, q_ = strip(p_), strip(q_)
                return (op == "Le" and truth is True and p_[0] == "const" and p_[2] is not None and p_[2] >= need and same(q_, x_)) or (op == "Lt" and truth is False and q_[0] == "const" and q_[2] is not None and q_[2] >= need and same(p_, x_))
            if guarded_by(b, bb, lo)[0]:
                return "operand tested >= %d on every path" % need
    # general guard: s <= a established
    def ge(c, lab):
        if not isinstance(lab, bool):
            return False
        n = norm_cmp(c, lab)
        if not n:
            return False
        op, x, y, truth = n
        x, y = strip(x), strip(y)
        if op in ("Le", "Lt") and truth is True and same(x, s0) and same(y, a0):
            return True     # s <= a / s < a
        if op in ("Le", "Lt") and truth is False and same(x, a0) and same(y, s0):
            return True     # !(a <= s) / !(a < s)  => a > s or a >= s
        return False
    if guarded_by(b, bb, ge)[0]:
        return "dominating comparison subtrahend <= minuend"
    # early return on the opposite: a < s -> return  (the site is not reachable across that edge) is the same as above
    return None


def run(ck, prog, tier, load):
    n_sub = n_add = n_cast = 0
    for b in sorted(prog.bodies.values(), key=lambda x: (x.file, x.lo, x.path)):
        if not b.file.endswith(FILES) or "::tests::" in b.npath or "::test::" in b.npath:
            continue
        if rx(r"::(ALL|ALL_NAMED|FLAGS)$|::_::").search(b.npath) and b.dk in ("Const", "AssocConst", "Static"):
            continue  # bitflags tables (compile-time constants)
        fn = "::".join(b.npath.split("::")[-2:])
        for bb in sorted(b.live):
            t = b.term(bb)
            if t["k"] != "assert" or is_noise(b, bb):
                continue
            msg = t["msg"]
            if not msg.startswith("Overflow"):
                continue
            ops = [b.op_expr(o) for o in t["mops"]]
            op = msg[9:-1] if msg.startswith("Overflow(") else "Neg"
            if all(strip(o)[0] == "const" for o in ops):
                continue
            if b.dk in ("Const", "AssocConst", "Static"):
                continue
            if op == "Sub":
                n_sub += 1
                why = sub_justified(b, bb, ops[0], ops[1])
                key = "%s|Sub|%s-%s" % (fn, canon(strip(ops[0]), 3), canon(strip(ops[1]), 3))
                if why is None:
                    why = table_reason(b, fn, "Sub", ops)
                if why is None and fn.endswith("NamedFile::into_response") and strip(ops[1])[:3] == ("const", None, 1):
                    from .c16 import filter_nonzero
                    if filter_nonzero(prog, b):
                        why = "the range was filtered by `length > 0` before use, so offset + length >= 1"
                if why is None and not (tainted(b, ops[0]) or tainted(b, ops[1])) and local_bookkeeping(b, ops):
                    why = "buffer bookkeeping on lengths/capacities of local buffers (capacity >= len by the container's invariant)"
                ck.ob("C19-a.sub-justified", key, why is not None, b, bb, "`%s - %s`: %s" % (short(ops[0], 3), short(ops[1], 3), why or "NOT justified: can underflow (panic in debug, wrap in release) for some peer input"))
            elif op in ("Add", "Mul", "Shl", "Shr", "Neg"):
                if not any(tainted(b, o) for o in ops):
                    continue
                n_add += 1
                key = "%s|%s|%s" % (fn, op, "+".join(canon(strip(o), 3) for o in ops))
                why = table_reason(b, fn, op, ops)
                if why is None and op in ("Shl", "Shr"):
                    # shift amounts are constants / masked
                    amt = strip(ops[1]) if len(ops) > 1 else None
                    if amt is not None and (amt[0] == "const" or e_bins(amt, ("BitAnd",))):
                        why = "shift amount is a constant or masked"
                if why is None and op == "Add" and strip(ops[1])[0] == "const" and byte_arith(b, bb, ops):
                    why = "byte arithmetic inside the matching byte-range arm"
                ck.ob("C19-a.wire-arith-guarded", key, why is not None, b, bb, "`%s %s %s` on a wire-derived integer: %s" % (short(ops[0], 3), op, short(ops[1], 3) if len(ops) > 1 else "", why or "NOT guarded"))
        # narrowing casts of wire integers
        for bb, i, s in b.assigns():
            rv = s["rv"]
            if rv["k"] == "cast" and rv["ck"].startswith("IntToInt"):
                w = {"u8": 8, "u16": 16, "u32": 32, "u64": 64, "usize": 64, "i64": 64, "i32": 32, "u128": 128}
                if w.get(rv["from"], 0) > w.get(rv["to"], 999):
                    e = b.op_expr(rv["ops"][0])
                    if tainted(b, e):
                        n_cast += 1
                        key = "%s|cast|%s:%s->%s" % (fn, canon(strip(e), 3), rv["from"], rv["to"])
                        why = None
                        if e_calls(e, r"core::cmp::min$|::min$"):
                            why = "value clamped by min() before the cast"
                        if e_calls(e, r"to_digit$"):
                            why = "to_digit(16) yields a value < 16"
                        ck.ob("C19-a.narrowing-cast", key, why is not None, b, bb, "narrowing cast of a wire integer %s as %s: %s" % (short(e, 3), rv["to"], why or "NOT clamped"))
    ck.anchor("C19-a", n_sub, 6, "overflow-checked subtractions in peer-facing parsing code")
    ck.anchor("C19-a", n_add, 2, "overflow-checked additions/multiplications on wire integers")

    n_sl = n_skip = 0
    def eval_site(b, bb, fn, recv, idx, X, k):
        nonlocal n_sl, n_skip
        def enough(c, lab, X=X, k=k, recv=recv):
            if not isinstance(lab, bool):
                return False
            n = norm_cmp(c, lab)
            if not n:
                # `!x.is_empty()` establishes len >= 1
                c2, tr = strip_not(c, True)
                if X is None and k <= 1 and c2[0] == "call" and rx(r"is_empty$").search(c2[1] or "") and c2[2] and same_obj(core_of(c2[2][0]), recv):
                    return (lab if tr else not lab) is False
                return False
            op, p_, q_, truth = n
            p_, q_ = strip(p_), strip(q_)
            def is_len(e):
                cs = e_calls(e, r"::len$")
                return bool(cs) and any(same_obj(core_of(c_[2][0]), recv) for c_ in cs if c_[2])
            def off(e):
                """(X', k') for e == X' + k' or const k'"""
                if e[0] == "const" and e[2] is not None:
                    return None, e[2]
                if e[0] == "place" and e[1][0] == "bin" and e[1][1] in ("Add", "AddWithOverflow"):
                    r_ = strip(e[1][3])
                    if r_[0] == "const" and r_[2] is not None:
                        x2, k2 = off(strip(e[1][2]))
                        return (strip(e[1][2]) if x2 is None and k2 == 0 else x2), k2 + r_[2]
                return e, 0
            # forms:  X+k' <= len (true) ; !(len < X+k') ; !(len <= X+k'-1) ; X+k'-1 < len
            if is_len(q_):
                x2, k2 = off(p_)
                if (X is None) == (x2 is None) and (X is None or same(x2, X)):
                    if op == "Le" and truth is True and k2 >= k:
                        return True
                    if op == "Lt" and truth is True and k2 + 1 >= k:
                        return True
            if is_len(p_):
                x2, k2 = off(q_)
                if (X is None) == (x2 is None) and (X is None or same(x2, X)):
                    if op == "Lt" and truth is False and k2 >= k:
                        return True      # !(len < X+k2)  => len >= X+k2
                    if op == "Le" and truth is False and k2 + 1 >= k:
                        return True      # !(len <= X+k2) => len >= X+k2+1
            return False
        has_related = bool(edges_where(b, lambda c, lab: enough_related(c, lab, X, recv)))
        if not has_related and X is not None:
            n_skip += 1
            return
        why_t = SLICE_TABLE.get("%s|%s" % (fn.split("::")[-1], shape(b, strip(idx), 3)))
        if why_t:
            ck.ob("C19-c.slice-length-guarded", "%s|%s|%s" % (fn, canon(recv, 3), canon(idx, 3)), True, b, bb, "reasoned exception: " + why_t, nontrivial=False)
            return
        n_sl += 1
        ok, wit = guarded_by(b, bb, enough)
        ck.ob("C19-c.slice-length-guarded", "%s|%s|%s" % (fn, canon(recv, 3), canon(idx, 3)), ok, b, bb,
              "slicing `%s[%s]` needs %s%d bytes; every path must cross a length test establishing that" % (short(recv, 2), short(idx, 3), (short(X, 2) + " + ") if X is not None else "", k), witness=b.path_lines(wit))

    # ---- (c) fixed-offset slicing of peer data is length-guarded ------------------------------
    for b in sorted(prog.bodies.values(), key=lambda x: (x.file, x.lo, x.path)):
        if not b.file.endswith(FILES) or "::tests::" in b.npath or "::test::" in b.npath or b.dk in ("Const", "AssocConst", "Static"):
            continue
        fn = "::".join(b.npath.split("::")[-2:])
        for bb, t in b.calls(r"Index<I> for \[T\]>::index$|IndexMut<I> for \[T\]>::index_mut$|Index<I> for str>::index$|core::slice::split_at$|<impl \[T\]>::split_at$|BytesMut::split_to$|Bytes::split_to$"):
            if is_noise(b, bb) or len(t["args"]) < 2:
                continue
            recv = core_of(b.op_expr(t["args"][0]))
            idx = b.op_expr(t["args"][1])
            need = bound_needed(idx)      # (X_expr_or_None, k) : requires X + k <= len(recv)
            if need is None:
                continue
            X, k = need
            if X is None and k == 0:
                continue
            if X is not None and (k == 0 or strip(X)[0] == "phi"):
                n_skip += 1     # base is a loop-carried / multi-valued variable: relation to the length is a loop invariant, not decided
                continue
            eval_site(b, bb, fn, recv, idx, X, k)
    # single-element indexing `x[c]` / `x[i + k]` (k >= 1) lowers to a BoundsCheck assert: the same obligation, one byte more
    for b in sorted(prog.bodies.values(), key=lambda x: (x.file, x.lo, x.path)):
        if not b.file.endswith(FILES) or "::tests::" in b.npath or "::test::" in b.npath or b.dk in ("Const", "AssocConst", "Static"):
            continue
        fn = "::".join(b.npath.split("::")[-2:])
        for bb in sorted(b.live):
            t = b.term(bb)
            if t["k"] != "assert" or not t["msg"].startswith("BoundsCheck") or is_noise(b, bb):
                continue
            ln_e, ix = b.op_expr(t["mops"][0], 6), b.op_expr(t["mops"][1], 6)
            if ln_e[0] == "const":
                continue  # fixed-size array: the index is masked/shifted into range, not a length question
            recv = core_of(ln_e[2] if ln_e[0] == "un" else ln_e)
            need = bound_needed(("agg", None, "x::RangeTo", (ix,), ()))
            if need is None:
                continue
            X, k = need
            if X is not None and k == 0:
                continue  # plain loop index
            eval_site(b, bb, fn, recv, ix, X, k + 1)
    ck.anchor("C19-c", n_sl, 3, "fixed-offset slice operations with a related length test")
    ck.note("C19-c: %d fixed-offset slice sites had no length comparison on the same base in their function and are not decided" % n_skip)

    # ---- (b) unsafe header writer -------------------------------------------------------------
    eh = prog.one(r"^actix_http::h1::encoder::MessageType::encode_headers$")
    clo = [c for c in prog.with_closures(eh) if c is not eh and any(True for _ in c.calls(r"encoder::write_data$"))]
    ck.anchor("C19-b", len(clo), 1, "header-writing closure of encode_headers")
    for c in clo:
        # pointer advances: ptr::add(buf, X)
        adds = [c.op_expr(t["args"][1]) for bb, t in c.calls(r"ptr::mut_ptr::<impl \*mut T>::add$|mut_ptr::add$|::add$") if "*mut u8" in str(t["fn"].get("selfty", "")) or rx(r"mut_ptr").search(cname(t))]
        wlens = [c.op_expr(t["args"][2]) for bb, t in c.calls(r"encoder::write_data$|encoder::write_camel_case$")]
        adv = sorted(canon(strip(x), 4) for x in adds)
        wr = sorted(canon(strip(x), 4) for x in wlens)
        # every write of n bytes is followed by an advance of n: multiset of advance amounts == multiset of written lengths
        # (the key is written by write_data or write_camel_case in exclusive branches: dedupe by canonical amount)
        ok = bool(adv) and sorted(set(adv)) == sorted(set(wr)) and len(adv) == 4
        ck.ob("C19-b.pointer-advance", "encode_headers", ok, c, None, "raw pointer advances %s equal the lengths written %s" % (adv, sorted(set(wr))))
        # len = k_len + v_len + 4 ; pos += len ; remaining -= len
        # the two running counters: usize variables of encode_headers captured by the closure and updated per header
        def ctr_of(x):
            if not (isinstance(x, str) and x.startswith(".^")):
                return None
            up = prog.upvar(c, x)
            if not up or up[0] is not eh:
                return None
            ls = [r[1] for r in e_roots(up[1]) if r[0] in ("var", "phi") and eh.lty(r[1]) == "usize"]
            return ls[0] if ls else None
        ctr_w = [(bb, s, [ctr_of(x) for x in s["p"][1:] if ctr_of(x) is not None][0]) for bb, i, s in c.assigns() if any(ctr_of(x) is not None for x in s["p"][1:])]
        def amount(s):
            e = c.rv_expr(s["rv"], 6)
            top = e[1] if e[0] == "place" else e
            return top
        amts = []
        for bb, s, l in ctr_w:
            e = amount(s)
            if e[0] == "const":
                continue
            if e[0] == "bin" and any(ctr_of(p_) == l for x in walk(e[2]) if x[0] == "place" for p_ in x[2]):
                amts.append((bb, e[1], canon(strip(e[3]), 5), l))
        REM = set(x[3] for x in amts if x[1] in ("Sub", "SubWithOverflow"))
        per_iter = [x for x in amts if x[1] in ("Add", "AddWithOverflow", "Sub", "SubWithOverflow")]
        same_len = len({x[2] for x in per_iter}) == 1 and len(per_iter) >= 2 and any(x[1].startswith("Add") for x in per_iter) and any(x[1].startswith("Sub") for x in per_iter)
        ck.ob("C19-b.counters-agree", "encode_headers", same_len, c, per_iter[0][0] if per_iter else None, "the cursor counter (`+= len`) and the remaining-capacity counter (`-= len`) use the same `len` (= key + value + 4): %s" % sorted({x[2] for x in per_iter}))
        # len is the sum of what is written: k_len + v_len + 4 where 4 = 2 (": ") + 2 ("\\r\\n")
        consts = sorted(x[2] for e in wlens for x in [strip(e)] if x[0] == "const")
        ok = same_len and per_iter and ("4" in per_iter[0][2]) and consts.count(2) >= 2
        ck.ob("C19-b.len-is-sum-of-writes", "encode_headers", bool(ok), c, None, "len = k_len + v_len + 4 and the constant writes are two 2-byte pieces (': ' and CRLF)")
        # after reserve the raw pointer is re-derived
        rs = [bb for bb, t in c.calls(r"BytesMut::reserve$")]
        rederive = [bb for bb, t in c.calls(r"as_mut_ptr$")]
        ok = bool(rs) and all(any(c.dominates(r_, d) or d in c.reach([r_]) for d in rederive) and c.must_pass([r_], [x for x, t in c.calls(r"encoder::write_data$|encoder::write_camel_case$")], rederive)[0] for r_ in rs)
        ck.ob("C19-b.pointer-rederived-after-reserve", "encode_headers", ok, c, rs[0] if rs else None, "after dst.reserve(..) the raw pointer is taken again from chunk_mut() before the next write")
        # the reserve is taken when len > remaining
        ok = bool(rs) and all(guarded_by(c, r_, cmp_pred("Le", lambda e: True, lambda e: any(ctr_of(p) in REM for x in walk(e) if x[0] == "place" for p in x[2] if ctr_of(p) is not None), False))[0] for r_ in rs)
        ck.ob("C19-b.reserve-when-short", "encode_headers", ok, c, rs[0] if rs else None, "capacity is reserved exactly on the edge len > remaining")
    # client side: a flag/slot combination that makes the payload codec unwrap None (shared with C17-d)
    from .c17 import stream_flag_has_payload
    stream_flag_has_payload(ck, prog, "C19-d")

    # a q-value (a float parsed from the header) is accepted only across a comparison that is TRUE for it: every comparison
    # is false for NaN, so a test of the form `!(v < lo) && !(v > hi)` lets NaN through to Quality::from_f32's assertion
    for qb in prog.find(r"Quality as core::convert::TryFrom<f32>>::try_from$"):
        for bb, t in qb.calls(r"Quality::from_f32$"):
            def positive(c, lab):
                bt = bool_test(c, lab)
                if bt and bt[1] is False and bt[0][0] == "call" and rx(r"f32::is_nan$|::is_nan$").search(bt[0][1] or ""):
                    return True  # NaN excluded explicitly: the negated range tests that follow are then sound
                if not bt or bt[1] is not True:
                    return False
                e = bt[0]
                return (e[0] == "call" and rx(r"RangeInclusive.*::contains$|Range.*::contains$|is_finite$").search(e[1] or "") is not None) or (e[0] == "bin" and e[1] in ("Le", "Lt", "Ge", "Gt", "Eq"))
            ok, wit = guarded_by(qb, bb, positive, prune_dead=False)
            ck.ob("C19-e.float-accepted-across-true-comparison", "Quality::try_from<f32>", ok, qb, bb, "from_f32(value) is reached only across a comparison that holds for the value (NaN fails every comparison; a pair of negated out-of-range tests does not exclude it)", witness=qb.path_lines(wit))
    # a `str` cut at a computed byte count (min(len, k)) needs a char-boundary test: the text is peer-controlled UTF-8
    for b in sorted(prog.bodies.values(), key=lambda x: (x.file, x.lo, x.path)):
        if not (b.file.endswith(FILES) or b.file.endswith("actix-router/src/de.rs")) or "::tests::" in b.npath:
            continue
        for bb, t in b.calls(r"Index<I> for str>::index$|core::str::<impl str>::split_at$"):
            if len(t["args"]) < 2 or is_noise(b, bb):
                continue
            idx = b.op_expr(t["args"][1], 6)
            if not (e_calls(idx, r"core::cmp::min$|Ord>::min$|::min$") and e_calls(idx, r"::len$") and any(k[2] is not None for k in e_consts(idx))):
                continue
            okb = any(c[0] == "call" and rx(r"is_char_boundary$").search(c[1] or "") and lab is True for c, lab, a in b.guards(bb)) or bool(e_calls(idx, r"floor_char_boundary$|ceil_char_boundary$"))
            ck.ob("C19-e.str-truncated-on-char-boundary", "::".join(b.npath.split("::")[-2:]), okb, b, bb, "a string is cut at min(len, k) bytes only after is_char_boundary / floor_char_boundary (byte k may lie inside a multi-byte character): %s" % short(idx, 4))


def core_of(e):
    while isinstance(e, tuple):
        if e[0] == "call" and e[2] and rx(r"Deref>::deref$|Deref::deref$|AsRef.*::as_ref$|DerefMut>::deref_mut$").search(e[1] or ""):
            e = e[2][0]
        elif e[0] == "cast":
            e = e[1]
        else:
            break
    return e


def same_obj(a, b_):
    if same(a, b_):
        return True
    fa = [p for x in walk(a) if x[0] == "place" for p in x[2] if isinstance(p, str) and p.startswith(".")]
    fb = [p for x in walk(b_) if x[0] == "place" for p in x[2] if isinstance(p, str) and p.startswith(".")]
    if fa and fb and fa[-1] == fb[-1]:
        return True
    ra = {r[1] for r in e_roots(a) if r[0] in ("arg", "var", "phi")}
    rb = {r[1] for r in e_roots(b_) if r[0] in ("arg", "var", "phi")}
    return bool(ra) and ra == rb and not fa and not fb


def bound_needed(idx):
    """upper bound a slice operation needs: (X, k) meaning X + k <= len; X None for constants"""
    def off(e):
        e = strip(e)
        if e[0] == "const" and e[2] is not None:
            return None, e[2]
        if e[0] == "place" and e[1][0] == "bin" and e[1][1] in ("Add", "AddWithOverflow"):
            r_ = strip(e[1][3])
            if r_[0] == "const" and r_[2] is not None:
                x2, k2 = off(e[1][2])
                return (strip(e[1][2]) if x2 is None and k2 == 0 and strip(e[1][2])[0] != "const" else x2), k2 + r_[2]
        return e, 0
    if idx[0] == "agg":
        nm = (idx[2] or "").split("::")[-1]
        ops = idx[3]
        if nm == "Range" and len(ops) == 2:
            # `x[a..x.len() - c]` needs a <= len - c, i.e. a + c <= len (and c <= len, which it implies)
            end = strip(ops[1])
            start = strip(ops[0])
            if end[0] == "place" and end[1][0] == "bin" and end[1][1] in ("Sub", "SubWithOverflow") and start[0] == "const" and start[2] is not None:
                c_ = strip(end[1][3])
                if c_[0] == "const" and c_[2] is not None and e_calls(end[1][2], r"::len$"):
                    return None, start[2] + c_[2]
            return off(ops[1])
        if nm == "RangeTo" and len(ops) == 1:
            return off(ops[0])
        if nm == "RangeFrom" and len(ops) == 1:
            return off(ops[0])
        return None
    if idx[0] == "call" and rx(r"RangeInclusive.*::new$").search(idx[1] or "") and len(idx[2]) == 2:
        x, k = off(idx[2][1])
        return x, k + 1
    if idx[0] == "const" and idx[2] is not None:
        return None, idx[2]        # split_at(n) / split_to(n)
    x, k = off(idx)
    if x is not None and x[0] in ("call",):
        return None                # length taken from another computation (min(..), find(..)): not a fixed offset
    return (x, k) if (x is None or k > 0) else None


def enough_related(c, lab, X, recv):
    """is this branch a length comparison on the same buffer (and same base X)?"""
    if not isinstance(lab, bool):
        return False
    n = norm_cmp(c, lab)
    if not n:
        return False
    sides = [strip(n[1]), strip(n[2])]
    has_len = any(any(c_[2] and same_obj(core_of(c_[2][0]), recv) for c_ in e_calls(s_, r"::len$")) for s_ in sides)
    if not has_len:
        return False
    if X is None:
        return any(s_[0] == "const" for s_ in sides)
    return any(any(same(y, X) for y in walk(s_) if isinstance(y, tuple)) for s_ in sides)


def table_reason(b, fn, op, ops):
    """exact-key lookup: function suffix | operator | operand shapes (locals by kind and type, not by name)"""
    key_ops = "+".join(shape(b, strip(x), 3) for x in ops)
    for k, why in TABLE.items():
        f, o, pat = k.split("|")
        if f not in fn:
            continue
        if o != "*" and o != op:
            continue
        if pat == "ptr-ptr":
            if all(e_calls(x, r"as_ptr$") for x in ops):
                return why
            continue
        if pat == "*" or pat == key_ops:
            return why
    if os.environ.get("AVLINT_C19_SHAPES"):
        print("C19 shape:", fn, op, key_ops)
    return None


def local_bookkeeping(b, ops):
    """both operands are len()/capacity() of the same local buffer"""
    cs = [e_calls(strip(o), r"::(len|capacity)$") for o in ops]
    return all(cs) and all(strip(o)[0] == "call" for o in ops)


def byte_arith(b, bb, ops):
    """u8 arithmetic on the dispatched input byte under a byte-range guard"""
    a = strip(ops[0])
    return any(n and n[0] in ("Le", "Lt") and (same(n[1], a) or same(n[2], a)) for c, lab, x in b.guards(bb) for n in [norm_cmp(c, lab) if isinstance(lab, bool) else None])
