"""C01 — HTTP/1 request framing unambiguous and independent of segmentation."""
from ..h1 import *  # noqa
from ..bytetab import byte_table, classes

EXPLANATION = (
    "Static rules over actix_http::h1::{decoder,chunked,codec,dispatcher}: (a) no consumption before need-more — every "
    "`Ok(None)` / `Poll::Pending` of the head decoders, the payload decoder and the nine chunk-state readers is "
    "unreachable from any call that consumes the input buffer, and the chunked driver stores the state returned by a "
    "step before any return (progress is persisted, so re-entry after any cut of the input resumes identically); "
    "(b) framing-conflict rejections — in set_headers the arms for a repeated Content-Length, a leading '+', a non-u64 "
    "value, a repeated Transfer-Encoding and a Transfer-Encoding other than chunked/identity each end in "
    "ParseError::Header, the accepting assignments are dominated by the passing edges, PayloadDecoder::chunked/length "
    "are constructed only from those locals; in Request::decode, assuming Transfer-Encoding is present together with "
    "HTTP/1.0, or a non-chunked coding, or a Content-Length, the success return is unreachable; (c) nothing is decoded "
    "after a parse error — from every Err edge of Codec::decode in the dispatcher no path leads back to decode, "
    "READ_DISCONNECT is set (or the client is marked disconnected), the queued response is 431 for TooLarge and 400 "
    "otherwise, and can_read()/read_available() refuse under READ_DISCONNECT; (d) the chunk framing automaton extracted "
    "by byte value-set analysis from the read_* functions equals the RFC 7230 section 4.1 automaton (with the recorded "
    "leniencies: LWS after the size, unparsed extensions, no trailers), the state->function dispatch is consistent, the "
    "size accumulation uses checked_mul, and the state in which a chunk-size line starts requires a hex digit. "
    "Equality of the decoded request sequence with the RFC grammar for every byte string is not decided."
)
RULES = "never-reach, guarded-site, assumption-conditioned reachability, byte value-set analysis against a reference automaton, table agreement."

CONSUME = r"bytes::bytes_mut::BytesMut::(split_to|split|split_off|advance|clear|truncate)$|Buf>::advance$|Buf::advance$"

HEX = set(range(0x30, 0x3A)) | set(range(0x41, 0x47)) | set(range(0x61, 0x67))
CTL_EXT = set(range(0x00, 0x09)) | set(range(0x0A, 0x20)) | {0x7F}


def ref_automaton():
    """RFC 7230 section 4.1 chunk framing as (state -> byte -> allowed outcome sets)"""
    def tab(m, default="Err"):
        t = {b: {default} for b in range(256)}
        for bs, o in m:
            for b in bs:
                t[b] = set(o) if isinstance(o, (set, list, tuple)) else {o}
        return t

    # accumulate states
    return {
        "SizeStart": tab([(HEX, {"SizeCont", "Err"})]),  # 1*HEXDIG: the first byte must be a digit
        "SizeCont": tab([(HEX, {"SizeCont", "Err"}), ({0x09, 0x20}, "SizeLws"), ({0x3B}, "Extension"), ({0x0D}, "SizeLf")]),
        "SizeLws": tab([({0x09, 0x20}, "SizeLws"), ({0x3B}, "Extension"), ({0x0D}, "SizeLf")]),
        "Extension": tab([(set(range(256)) - CTL_EXT - {0x0D}, "Extension"), ({0x0D}, "SizeLf")]),
        "SizeLf": tab([({0x0A}, {"Body", "EndCr", "Err"})]),
        "BodyCr": tab([({0x0D}, "BodyLf")]),
        "BodyLf": tab([({0x0A}, "SizeStart")]),
        "EndCr": tab([({0x0D}, "EndLf")]),
        "EndLf": tab([({0x0A}, "End")]),
    }


def run(ck, prog, tier, load):
    rdec = prog.one(r"^<actix_http::requests::request::Request as actix_http::h1::decoder::MessageType>::decode$")
    sdec = prog.one(r"^<actix_http::responses::head::ResponseHead as actix_http::h1::decoder::MessageType>::decode$")
    pdec = prog.one(r"^<actix_http::h1::decoder::PayloadDecoder as tokio_util::codec::decoder::Decoder>::decode$")
    sh = prog.one(r"^actix_http::h1::decoder::MessageType::set_headers$")
    readers = {b.npath.split("::")[-1]: b for b in prog.find(r"^actix_http::h1::chunked::ChunkedState::read_[a-z_]+$")}
    ck.anchor("C01-anchor", len(readers), 5, "chunk-state reader functions")

    # ---- (a) no consumption before need-more -----------------------------------
    n = 0
    for b in (rdec, sdec, pdec):
        cons = [bb for bb, t in b.calls(CONSUME)]
        for bb, e in b.ret_exprs():
            if agg_chain(e)[0][:2] == ["core::result::Result::Ok", "core::option::Option::None"]:
                n += 1
                bad = [c for c in cons if bb in b.reach([c])]
                if b is pdec and bad:
                    # the chunked driver consumes in steps; progress is persisted instead (checked below)
                    g = [lab for c, lab, a in b.guards(bb) if c[0] == "discr" and c[2] == "actix_http::h1::decoder::Kind"]
                    if "Chunked" in g:
                        continue
                gl = b.guards(bb)
                near = ("%s=%s" % (short(gl[0][0], 2), lab_s(gl[0][1]))) if gl else "entry"
                ck.ob("C01-a.need-more-pure", "%s|under %s" % (b.npath.split(" as ")[0].split("::")[-1], near), not bad, b, bb, "`Ok(None)` is unreachable from any consuming call on the input buffer")
    for name, b in sorted(readers.items()):
        cons = [bb for bb, t in b.calls(CONSUME)]
        for bb, e in ret_sites(b, lambda e: is_agg(e, r"Poll::Pending$")):
            n += 1
            bad = [c for c in cons if bb in b.reach([c])]
            ck.ob("C01-a.need-more-pure", name, not bad, b, bb, "`Poll::Pending` (no byte available) is unreachable from any consuming call")
    ck.anchor("C01-a", n, 6, "need-more returns in the h1 decoders")
    # chunked driver persists the state before any return
    steps = [bb for bb, t in pdec.calls(r"ChunkedState::step$")]
    ck.anchor("C01-a", len(steps), 1, "ChunkedState::step in PayloadDecoder::decode")
    for sbb in steps:
        # the Ready(Ok(state)) edge
        ok_edges = []
        for a in pdec.live:
            br = pdec.branch(a)
            if br and br[0][0] == "discr" and e_calls(br[0], r"ChunkedState::step$") and br[0][2] == "core::result::Result":
                ok_edges += [tb for lab, tb in br[1] if lab == "Ok"]
        def is_state_place(pl):
            if any(isinstance(x, str) and x.endswith("Kind::Chunked.0") for x in pl[1:]):
                return True
            if len(pl) == 2 and pl[1] == "*":
                # `ref mut state` binding: the local is a reference into Kind::Chunked.0
                e0 = pdec.local_expr(pl[0])
                return any(isinstance(x, str) and x.endswith("Kind::Chunked.0") for x in (e0[2] if e0[0] == "place" else ()))
            return False

        stores = [bb for bb, i, s in pdec.assigns() if is_state_place(s["p"]) and e_calls(pdec.rv_expr(s["rv"], 6), r"ChunkedState::step$")]
        ok = bool(ok_edges) and bool(stores) and pdec.must_pass(ok_edges, pdec.returns(), stores)[0]
        ck.ob("C01-a.chunk-state-persisted", "PayloadDecoder::decode", ok, pdec, stores[0] if stores else sbb, "the state returned by a successful step is stored into Kind::Chunked before any return (a cut between steps resumes identically)")

    # ---- (b) framing-conflict rejections -----------------------------------------
    errs = [(bb, e) for bb, e in sh.ret_exprs() if is_agg(e, r"Result::Err$") and any(is_agg(x, r"ParseError::Header$") for x in walk(e))]
    ck.anchor("C01-b", len(errs), 4, "Err(ParseError::Header) returns in set_headers")

    def hdr_arm(bb, name):
        return any(c[0] == "discr" and (c[2] or "").endswith("StandardHeader") and labels_in(lab, (name,)) for c, lab, a in sh.guards(bb))

    def var_true(bb, locs):
        return any(l in locs for l in locals_guarding(sh, bb, True))

    def call_guard(bb, pat, want, const=None):
        for c, lab, a in sh.guards(bb):
            c2, tr = strip_not(c, True)
            if c2[0] == "call" and rx(pat).search(c2[1] or "") and isinstance(lab, bool) and ((lab if tr else not lab) is want):
                if const is None or any(k[3] == const or k[2] == const for k in e_consts(c2)):
                    return True
        return False

    def discr_guard(bb, pat, label):
        return any(c[0] == "discr" and e_calls(c, pat) and lab == label for c, lab, a in sh.guards(bb))

    # the decision variables are identified by role, not by name: CL = the Option<u64> local that feeds
    # PayloadDecoder::length; CH = the bool local(s) whose true edge guards PayloadDecoder::chunked();
    # SEEN = the bool local(s) written inside the Transfer-Encoding arm that are not CH
    len_calls = [(bb, t) for bb, t in sh.calls(r"PayloadDecoder::length$")]
    chk_calls = [(bb, t) for bb, t in sh.calls(r"PayloadDecoder::chunked$")]
    ck.anchor("C01-b", len(len_calls), 1, "PayloadDecoder::length in set_headers")
    ck.anchor("C01-b", len(chk_calls), 1, "PayloadDecoder::chunked in set_headers")
    CL = set(l for l in user_locals(sh, r"Option<u64>$") if any(root_is(sh.op_expr(t["args"][0]), l) for bb, t in len_calls))
    CH = set(l for bb, t in chk_calls for l in locals_guarding(sh, bb, True))
    SEEN = set()
    for l in user_locals(sh, r"^bool$"):
        if l in CH:
            continue
        for d in sh.defs().get(l, []):
            e = sh.def_expr(d, 4)
            if e[0] == "const" and e[2] == 1 and hdr_arm(d[1], "TransferEncoding"):
                SEEN.add(l)
    ck.anchor("C01-b", len(CL), 1, "Option<u64> local feeding PayloadDecoder::length (the accepted Content-Length)")
    ck.anchor("C01-b", len(CH), 1, "bool local guarding PayloadDecoder::chunked (the chunked decision)")
    ck.anchor("C01-b", len(SEEN), 1, "bool local set in the Transfer-Encoding arm (the seen-TE flag)")
    clauses = {
        "repeated Content-Length": lambda bb: hdr_arm(bb, "ContentLength") and call_guard(bb, r"Option::is_some$", True),
        "Content-Length with leading +": lambda bb: hdr_arm(bb, "ContentLength") and call_guard(bb, r"starts_with$", True, ord("+")),
        "Content-Length not a u64": lambda bb: hdr_arm(bb, "ContentLength") and discr_guard(bb, r"str::parse$|FromStr.*from_str$|core::str::<impl str>::parse$", "Err"),
        "Content-Length not text": lambda bb: hdr_arm(bb, "ContentLength") and discr_guard(bb, r"HeaderValue::to_str$|Result.*::map$", "Err"),
        "repeated Transfer-Encoding": lambda bb: hdr_arm(bb, "TransferEncoding") and var_true(bb, SEEN),
        "Transfer-Encoding not chunked/identity": lambda bb: hdr_arm(bb, "TransferEncoding") and call_guard(bb, r"eq_ignore_ascii_case$", False, "chunked") and call_guard(bb, r"eq_ignore_ascii_case$", False, "identity"),
    }
    for name, pred in clauses.items():
        hit = [bb for bb, e in errs if pred(bb)]
        ck.ob("C01-b.rejection-present", name, bool(hit), sh, hit[0] if hit else None, "set_headers rejects: %s (Err(ParseError::Header) under the corresponding test)" % name)
    # accepting assignments
    for role, locs, want in (("content_length", CL, "Content-Length accepted only once, without '+', parsed as u64"), ("chunked", CH, "chunked set only for a first Transfer-Encoding equal to `chunked`")):
        for l in sorted(locs):
            for d in sh.defs().get(l, []):
                e = sh.def_expr(d, 5)
                if e[0] == "const" and e[2] == 0 or is_agg(e, r"Option::None$"):
                    continue
                bb = d[1]
                if role == "content_length":
                    ok = hdr_arm(bb, "ContentLength") and discr_guard(bb, r"parse$", "Ok") and call_guard(bb, r"starts_with$", False) and call_guard(bb, r"Option::is_some$", False)
                    ck.ob("C01-b.accept-dominated", role, ok, sh, bb, want)
                else:
                    ok = hdr_arm(bb, "TransferEncoding") and call_guard(bb, r"eq_ignore_ascii_case$", True, "chunked") and guarded_by(sh, bb, lambda c, lab: bool(bool_test(c, lab)) and is_local(bool_test(c, lab)[0], SEEN) and bool_test(c, lab)[1] is False)[0]
                    ck.ob("C01-b.accept-dominated", role, ok, sh, bb, want)
    for bb, t in chk_calls:
        ck.ob("C01-b.decoder-from-decision", "chunked", var_true(bb, CH), sh, bb, "PayloadDecoder::chunked() only when the chunked decision variable is set")
    for bb, t in len_calls:
        e = sh.op_expr(t["args"][0])
        chunked_false = guarded_by(sh, bb, lambda c, lab: bool(bool_test(c, lab)) and is_local(bool_test(c, lab)[0], CH) and bool_test(c, lab)[1] is False)[0]
        ok = root_is(e, CL) and not var_true(bb, CH) and chunked_false
        ck.ob("C01-b.decoder-from-decision", "length", ok, sh, bb, "PayloadDecoder::length(n) takes n from the accepted Content-Length and is reached only on the edge where chunked was NOT chosen (Transfer-Encoding overrides Content-Length, RFC 7230 3.3.3)")
    # Request::decode: TE conflicts
    succ_rets = [bb for bb, e in rdec.ret_exprs() if agg_chain(e)[0][:2] == ["core::result::Result::Ok", "core::option::Option::Some"]]
    ck.anchor("C01-b", len(succ_rets), 1, "success return of Request::decode")

    def ck_true(hdr, want):
        def p(c, lab):
            c2, tr = strip_not(c, True)
            if not (isinstance(lab, bool) and c2[0] == "call" and rx(r"HeaderMap::contains_key$").search(c2[1] or "") and e_has_const(c2, hdr + "$")):
                return False
            return (lab if tr else not lab) is (not want)  # impossible edge = the one contradicting the assumption
        return p

    def ver10_false(c, lab):
        # assumption ver == HTTP_10: edges where (ver == HTTP_10) is false are impossible
        c2, tr = strip_not(c, True)
        if not (isinstance(lab, bool) and c2[0] == "call" and rx(r"PartialEq.*::eq$").search(c2[1] or "") and e_has_const(c2, r"Version::HTTP_10$")):
            return False
        return (lab if tr else not lab) is False

    def chunked_true(c, lab):
        # assumption: chunked() == Ok(false): edges where it is true are impossible
        c2, tr = strip_not(c, True)
        if isinstance(lab, bool) and e_calls(c2, r"HttpMessage::chunked$") and c2[0] in ("place", "call", "var", "phi"):
            return (lab if tr else not lab) is True
        return False

    te_present = ck_true(r"TRANSFER_ENCODING", True)
    cases = {
        "TE + Content-Length": [te_present, ck_true(r"CONTENT_LENGTH", True)],
        "TE on HTTP/1.0": [te_present, ver10_false],
        "TE not chunked": [te_present, chunked_true],
    }
    for name, preds in cases.items():
        r, rem = reach_under(rdec, preds)
        bad = [bb for bb in succ_rets if bb in r]
        enough = all(edges_where(rdec, p) for p in preds)
        ck.ob("C01-b.conflict-unreachable", name, enough and not bad, rdec, bad[0] if bad else None, "assuming %s, the success return of Request::decode is unreachable" % name)

    # ---- (c) nothing decoded after a parse error -------------------------------------
    preq = disp(prog, "poll_request")
    decs = [bb for bb, t in preq.calls(r"^<actix_http::h1::codec::Codec as tokio_util::codec::decoder::Decoder>::decode$")]
    ck.anchor("C01-c", len(decs), 1, "Codec::decode in the dispatcher")
    err_edges = []
    for a in preq.live:
        br = preq.branch(a)
        if br and br[0][0] == "discr" and e_calls(br[0], r"Codec as tokio_util::codec::decoder::Decoder>::decode$") and br[0][2] == "core::result::Result":
            err_edges += [tb for lab, tb in br[1] if lab == "Err"]
    ck.anchor("C01-c", len(err_edges), 1, "Err edge of Codec::decode")
    for tb in err_edges:
        back = sorted(set(decs) & preq.reach([tb]))
        ck.ob("C01-c.no-decode-after-error", "poll_request", not back, preq, back[0] if back else tb, "from the Err edge of Codec::decode no path leads back to Codec::decode")
        rd = {x for x, op, fl, t in flag_ops(preq) if op == "insert" and "READ_DISCONNECT" in fl} | {bb for bb, t in preq.calls(r"InnerDispatcher::client_disconnected$")}
        ok, wit = preq.must_pass([tb], preq.returns(), rd)
        ck.ob("C01-c.error-closes-read", "poll_request", ok, preq, tb, "every path from a decode error to return sets READ_DISCONNECT (or marks the client disconnected)", witness=preq.path_lines(wit))
    # per error kind: response status
    arms = {}
    for a in preq.live:
        br = preq.branch(a)
        if br and br[0][0] == "discr" and br[0][2] == "actix_http::error::ParseError":
            for lab, tb in br[1]:
                arms[lab if isinstance(lab, str) else "otherwise"] = tb
    ck.anchor("C01-c", len(arms), 2, "ParseError arms in poll_request (Io, TooLarge, otherwise)")
    for lab, tb in arms.items():
        reg = {x for x in preq.reach([tb]) if preq.dominates(tb, x)}
        if lab == "TooLarge":
            ok = any(is_call(preq.term(x), r"Response.*::with_body$") and e_has_const(preq.op_expr(preq.term(x)["args"][0]), r"REQUEST_HEADER_FIELDS_TOO_LARGE$") for x in reg)
            ck.ob("C01-c.error-status", "TooLarge->431", ok, preq, tb, "an oversized head is answered with 431")
        elif lab == "Io":
            ok = any(is_call(preq.term(x), r"InnerDispatcher::client_disconnected$") for x in reg)
            ck.ob("C01-c.error-status", "Io->disconnect", ok, preq, tb, "an I/O error marks the client disconnected (no response)")
        else:
            ok = any(is_call(preq.term(x), r"Response.*::bad_request$") for x in reg)
            ck.ob("C01-c.error-status", "other->400", ok, preq, tb, "every other parse error is answered with 400")
    cr = disp(prog, "can_read")
    f_rets = [d for d in cr.defs().get(0, []) if cr.def_expr(d, 3)[:3] == ("const", None, 0)]
    t_rets = [d for d in cr.defs().get(0, []) if cr.def_expr(d, 3)[:3] != ("const", None, 0)]
    ok = any(guarded_by(cr, d[1], flag_edge("READ_DISCONNECT", True))[0] for d in f_rets) and all(guarded_by(cr, d[1], flag_edge("READ_DISCONNECT", False))[0] for d in t_rets)
    ck.ob("C01-c.read-disconnect-blocks-decode", "can_read", ok, cr, None, "can_read() is false under READ_DISCONNECT and can be true only when it is clear (poll_request decodes only after can_read)")
    for bb in decs:
        def can_read_true(c, lab):
            c2, tr = strip_not(c, True)
            return isinstance(lab, bool) and c2[0] == "call" and rx(r"InnerDispatcher::can_read$").search(c2[1] or "") is not None and (lab if tr else not lab) is True
        ck.ob("C01-c.decode-behind-can-read", "poll_request", guarded_by(preq, bb, can_read_true)[0], preq, bb, "Codec::decode is reached only after can_read(cx) returned true")
    ra = disp(prog, "read_available")
    for bb, t in ra.calls(r"poll_read_buf$"):
        ck.ob("C01-c.read-disconnect-blocks-read", "read_available", guarded_by(ra, bb, flag_edge("READ_DISCONNECT", False))[0], ra, bb, "the socket is read only with READ_DISCONNECT clear")

    # ---- (d) chunk framing automaton -----------------------------------------------------
    step = prog.one(r"^actix_http::h1::chunked::ChunkedState::step$")
    dispatch = {}
    const_args = {}
    for a in step.live:
        br = step.branch(a)
        if br and br[0][0] == "discr" and br[0][2] == "actix_http::h1::chunked::ChunkedState":
            for lab, tb in br[1]:
                if isinstance(lab, str):
                    cs = [x for x in step.reach([tb]) if step.dominates(tb, x) and step.term(x)["k"] == "call" and rx(r"ChunkedState::read_").search(cname(step.term(x)))]
                    dispatch[lab] = cname(step.term(cs[0])).split("::")[-1] if cs else None
                    if cs:
                        # constant (bool) arguments select a mode of a shared reader function
                        for ai, a_ in enumerate(step.term(cs[0])["args"]):
                            e_ = step.op_expr(a_)
                            if e_[0] == "const" and e_[4] == "bool":
                                const_args.setdefault(lab, {})[ai + 1] = bool(e_[2])
    ck.anchor("C01-d", len(dispatch), 5, "state -> reader dispatch entries in ChunkedState::step")
    tables = {}
    for st, fn in sorted(dispatch.items()):
        if fn is None or fn not in readers:
            continue
        if fn == "read_body":
            continue
        dead = set()
        for argl, val in const_args.get(st, {}).items():
            dead |= edges_where(readers[fn], lambda c, lab, argl=argl, val=val: isinstance(lab, bool) and strip_not(c)[0][0] == "arg" and strip_not(c)[0][1] == argl and ((lab if strip_not(c)[1] else not lab) is not val))
        t, info = byte_table(readers[fn], dead=dead)
        if t is None:
            ck.ob("C01-d.table-extracted", st, False, readers[fn], None, "no byte dispatch found in %s: %s" % (fn, info))
            continue
        tables[st] = t
    ck.anchor("C01-d", len(tables), 4, "byte tables extracted from the readers")
    # which implementation state plays which reference role
    init = None
    chk = prog.one(r"^actix_http::h1::decoder::PayloadDecoder::chunked$")
    for x in (y for bb, i, s in chk.assigns() for y in walk(chk.rv_expr(s["rv"], 4))):
        if x[0] == "agg" and (x[2] or "").startswith("actix_http::h1::chunked::ChunkedState::"):
            init = x[2].split("::")[-1]
    after = None
    if "BodyLf" in tables:
        o = tables["BodyLf"][0x0A]
        after = next(iter(o)) if len(o) == 1 else None
    ck.ob("C01-d.start-states", "init=%s after-chunk=%s" % (init, after), init is not None and init == after, chk, None, "the decoder starts, and restarts after each chunk, in the same chunk-size start state (%s / %s)" % (init, after))
    ref = ref_automaton()
    # map implementation states to reference roles
    role = {}
    if init:
        role[init] = "SizeStart"
    # the state reached after a first digit
    cont = None
    if init in tables:
        o = tables[init][0x30] - {"Err"}
        cont = next(iter(o)) if len(o) == 1 else None
    if cont and cont != init:
        role[cont] = "SizeCont"
    for s in ("SizeLws", "Extension", "SizeLf", "BodyCr", "BodyLf", "EndCr", "EndLf"):
        role.setdefault(s, s)
    inv_role = {}
    for impl, r_ in role.items():
        inv_role.setdefault(r_, impl)
    if cont == init:
        # one state plays both roles: compare against SizeCont, and separately demand the start-state property
        role[init] = "SizeCont"

    def rename(o):
        # reference outcome names -> implementation state names
        m = {"SizeStart": init, "SizeCont": cont or init}
        return {m.get(x, x) for x in o}

    for impl, r_ in sorted(role.items()):
        if impl not in tables:
            if impl in dispatch:
                ck.ob("C01-d.automaton", impl, False, step, None, "no table for state %s" % impl)
            continue
        t = tables[impl]
        bad = []
        for b in range(256):
            want = rename(ref[r_][b])
            got = set(t[b]) - {"Pending"}
            if not got <= want or not (got - {"Err"}) == (want - {"Err"}):
                bad.append(b)
        ck.ob("C01-d.automaton", "%s as %s" % (impl, r_), not bad, readers[dispatch[impl]], None,
              "byte table of state %s %s == RFC 7230 4.1 role %s%s" % (impl, classes(t), r_, ("; differing bytes: " + ",".join("%02x" % b for b in bad[:12])) if bad else ""))
    # the start state must demand a digit (chunk-size = 1*HEXDIG)
    if init in tables:
        t = tables[init]
        lenient = [b for b in (0x0D, 0x3B, 0x20, 0x09) if t[b] - {"Err", "Pending"}]
        ck.ob("C01-d.size-needs-digit", init, not lenient, readers[dispatch[init]], None,
              "in the state where a chunk-size line starts, CR / ';' / SP / HT must be rejected (chunk-size = 1*HEXDIG); accepted today: %s — an empty size line is taken as the last chunk" % ["%02x" % b for b in lenient])
    # overflow-checked accumulation
    rs = readers.get("read_size")
    if rs is not None:
        cm = [bb for bb, t in rs.calls(r"checked_mul$")]
        ok = bool(cm) and any(c[0] == "discr" and e_calls(c, r"checked_mul$") and lab == "None" for bb, e in ret_sites(rs, lambda e: any(is_agg(x, "Result::Err$") for x in walk(e))) for c, lab, a in rs.guards(bb))
        ck.ob("C01-d.size-overflow-checked", "read_size", ok, rs, cm[0] if cm else None, "chunk size accumulates through checked_mul(16); overflow is an error")
    # read_body: consumes min(rem, len) and moves to BodyCr exactly when rem == 0
    rb = readers.get("read_body")
    if rb is not None:
        st = [d for d in rb.defs().get(0, [])]
        to_cr = [d for d in st if any(is_agg(x, r"ChunkedState::BodyCr$") for x in walk(rb.def_expr(d, 6)))]
        ok = bool(to_cr) and all(guarded_by(rb, d[1], cmp_pred("Le", lambda e: root_is(e, args_of_type(rb, r"^&mut u64$")), is_const_int(0), True))[0] for d in to_cr)
        ck.ob("C01-d.body-exact", "read_body", ok, rb, to_cr[0][1] if to_cr else None, "the chunk body ends (-> BodyCr) only on the edge rem == 0 (`rem > 0` false)")
