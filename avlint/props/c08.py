"""C08 — HTTP/2 responses complete and well-described under any flow-control schedule."""
from ..rules import *  # noqa

EXPLANATION = (
    "Static rules over actix_http::h2::dispatcher (the coroutine of handle_response is analysed as one CFG before the "
    "coroutine transform, with its awaits visible as poll/yield loops): (a) the capacity wait "
    "(reserve_capacity -> poll_capacity) is entered only with a non-empty chunk — h2 wakes poll_capacity only on a "
    "capacity increase and reserve_capacity(0) requests none, so an empty chunk would stall the stream (found and "
    "fixed); (b) the whole chunk is sent before the next one is pulled: what is sent is chunk.split_to(min(len, cap)) "
    "with cap taken from poll_capacity, and the only way from send_data back to polling the body crosses the "
    "chunk.is_empty() true edge; (c) the end of the stream is always signalled: every path from body exhaustion to "
    "Ok(()) passes send_data(_, true), and HEAD / size.is_eof() return right after send_response(_, true) without data "
    "frames; (d) header rules of prepare_response: connection, keep-alive, proxy-connection, transfer-encoding and "
    "upgrade are never copied, 100/102/204 suppress the body, content-length is inserted only from BodySize::Sized and "
    "a user content-length is skipped when the size is known; (e) the request side releases flow-control capacity for "
    "every chunk it hands to the application. Behaviour of the h2 crate and stream independence as a scheduling fact "
    "are not decided."
)
RULES = "guarded-site, must-pass-through and edge-set reachability on the coroutine CFG; header/status table extraction."

H2_FORBIDDEN = {"connection", "keep-alive", "proxy-connection", "transfer-encoding", "upgrade"}


def closure_calling(prog, owner, pat):
    return [c for c in prog.with_closures(owner) if c is not owner and any(True for _ in c.calls(pat))]


def run(ck, prog, tier, load):
    hr = prog.one(r"^actix_http::h2::dispatcher::handle_response::\{closure#0\}$")
    body_cl = {c.path for c in closure_calling(prog, hr, r"MessageBody.*::poll_next$")}
    cap_cl = {c.path for c in closure_calling(prog, hr, r"SendStream.*::poll_capacity$")}
    ck.anchor("C08-anchor", len(body_cl), 1, "closure polling the response body")
    ck.anchor("C08-anchor", len(cap_cl), 1, "closure polling stream capacity")

    def pollfn_sites(cl_paths):
        out = []
        for bb, t in hr.calls(r"poll_fn::poll_fn$"):
            e = hr.op_expr(t["args"][0])
            if e[0] == "agg" and e[1] == "closure" and any(norm(p) == e[2] for p in cl_paths):
                out.append(bb)
        return out

    body_polls = pollfn_sites(body_cl)
    cap_polls = pollfn_sites(cap_cl)
    ck.anchor("C08-anchor", len(body_polls), 1, "poll_fn(body.poll_next) site")
    ck.anchor("C08-anchor", len(cap_polls), 1, "poll_fn(stream.poll_capacity) site")

    def chunk_empty(want):
        def p(c, lab):
            c2, tr = strip_not(c, True)
            return isinstance(lab, bool) and c2[0] == "call" and rx(r"bytes::bytes::Bytes::is_empty$").search(c2[1] or "") is not None and (lab if tr else not lab) is want
        return p

    # ---- (a) no capacity wait for an empty chunk ---------------------------------
    res = [bb for bb, t in hr.calls(r"SendStream.*::reserve_capacity$")]
    ck.anchor("C08-a", len(res), 1, "reserve_capacity in handle_response")
    for bb in res:
        ok, wit = guarded_by(hr, bb, chunk_empty(False))
        ck.ob("C08-a.no-wait-for-empty-chunk", "handle_response", ok, hr, bb, "reserve_capacity/poll_capacity is reached only across `chunk.is_empty()` == false", witness=hr.path_lines(wit))
        amt = hr.op_expr(hr.term(bb)["args"][1])
        ok2 = bool(e_calls(amt, r"core::cmp::min$")) and bool(e_calls(amt, r"Bytes::len$"))
        ck.ob("C08-a.reserve-amount", "handle_response", ok2, hr, bb, "the amount reserved is min(chunk.len(), CHUNK_SIZE): %s" % short(amt, 3))

    # ---- (b) whole chunk before next pull ----------------------------------------------
    sends = [(bb, t) for bb, t in hr.calls(r"SendStream.*::send_data$")]
    data_sends = [(bb, t) for bb, t in sends if hr.op_expr(t["args"][2])[:3] == ("const", None, 0)]
    eos_sends = [(bb, t) for bb, t in sends if hr.op_expr(t["args"][2])[:3] == ("const", None, 1)]
    for bb, t in sends:
        fl = hr.op_expr(t["args"][2])
        if fl[0] == "const":
            continue
        # a computed END_STREAM flag is acceptable only if every byte count it depends on is decremented by the
        # length of exactly what is sent in that frame (the split_to result / its min(len, cap) argument)
        payload = hr.op_expr(t["args"][1])
        sp = e_calls(payload, r"Bytes::split_to$")
        sent_len = canon(sp[0][2][1], 6) if sp and len(sp[0][2]) > 1 else None
        subs = []
        for x in deep_conds(hr, fl, 4):
            for y in walk(x):
                if y[0] == "call" and rx(r"saturating_sub$|checked_sub$|wrapping_sub$").search(y[1] or "") and len(y[2]) == 2:
                    subs.append(y[2][1])
                if y[0] == "bin" and y[1] in ("Sub", "SubWithOverflow"):
                    subs.append(y[3])
        ok = bool(subs) and all((sent_len is not None and canon(_strip(x_), 6) == sent_len) or (e_calls(x_, r"Bytes::len$") and e_calls(x_, r"Bytes::split_to$")) for x_ in subs)
        ck.ob("C08-c.end-flag-accounting", "send_data|computed", ok, hr, bb,
              "a computed END_STREAM flag must count exactly the bytes put into the frame (chunk.split_to(min(len, cap))); counts it depends on: %s" % [short(x_, 3) for x_ in subs])
    data_sends = [(bb, t) for bb, t in sends if hr.op_expr(t["args"][2])[:3] != ("const", None, 1)]
    ck.anchor("C08-b", len(data_sends), 1, "send_data(_, false)")
    ck.anchor("C08-c", len(eos_sends), 1, "send_data(_, true)")
    for bb, t in data_sends:
        d = hr.op_expr(t["args"][1])
        sp = e_calls(d, r"Bytes::split_to$")
        ok = bool(sp) and bool(e_calls(sp[0], r"core::cmp::min$")) and bool(e_calls(sp[0], r"Bytes::len$")) and any(x[0] == "place" and e_calls(x, r"Future>::poll$") for x in walk(sp[0]))
        ck.ob("C08-b.sends-front-of-chunk", "handle_response", ok, hr, bb, "the frame sent is chunk.split_to(min(chunk.len(), granted capacity)): %s" % short(d, 3))
        # back to the body poll only through is_empty == true
        es = edges_where(hr, chunk_empty(True))
        r = hr.reach(hr.succ[bb], removed_edges=es)
        ok2 = bool(es) and not (set(body_polls) & r)
        ck.ob("C08-b.next-chunk-only-when-empty", "handle_response", ok2, hr, bb, "after sending, the next body chunk is polled only once the current chunk is empty (no bytes of it are dropped)")
        # ... and the amount reserved for the remainder is computed from what is left, not from the original chunk:
        # a reservation larger than the bytes left keeps connection-level window assigned to this stream
        lens = [b2 for b2, t2 in hr.calls(r"Bytes::len$") if any(hr.dominates(b2, r_) for r_ in res)]
        ok3, wit3 = hr.must_pass_after(bb, res, lens) if lens else (False, None)
        ck.ob("C08-b.remainder-reservation-fresh", "handle_response", ok3, hr, bb,
              "between sending part of a chunk and the next reserve_capacity the remaining length is read again (chunk.len() feeds the reservation on every loop round)", witness=hr.path_lines(wit3))
        # the remainder goes round the capacity loop again
        r2 = hr.reach(hr.succ[bb], removed_edges=edges_where(hr, chunk_empty(True)))
        ck.ob("C08-b.remainder-resent", "handle_response", bool(set(res) & r2), hr, bb, "with bytes left in the chunk control returns to reserve_capacity")

    # ---- (c) end of stream always signalled ------------------------------------------------
    none_edges = []
    for a in hr.live:
        br = hr.branch(a)
        if br and br[0][0] == "discr" and br[0][2] == "core::option::Option" and e_calls(br[0], r"Future>::poll$"):
            # which awaitee? the one whose poll_fn closure is the body closure
            # which await? the nearest dominating poll_fn site decides
            near = [d for d in hr.dominators(a) if d in body_polls or d in cap_polls]
            if near and near[0] in body_polls:
                none_edges += [tb for lab, tb in br[1] if lab == "None"]
    ck.anchor("C08-c", len(none_edges), 1, "None edge of body.poll_next (body exhausted)")
    ok_rets = [bb for bb, e in hr.ret_exprs() if is_agg(e, r"Result::Ok$")]
    for tb in none_edges:
        ok, wit = hr.must_pass([tb], ok_rets, [bb for bb, t in eos_sends])
        ck.ob("C08-c.end-of-stream-sent", "handle_response", ok, hr, tb, "every path from body exhaustion to Ok(()) passes send_data(_, end_of_stream = true)", witness=hr.path_lines(wit))
    sr = [(bb, t) for bb, t in hr.calls(r"SendResponse.*::send_response$")]
    ck.anchor("C08-c", len(sr), 1, "send_response in handle_response")
    for bb, t in sr:
        fl = hr.op_expr(t["args"][2])
        srcs = deep_conds(hr, fl)
        # the HEAD flag: a captured bool parameter of handle_response into which the dispatcher passes `method == HEAD`
        head_pos = set()
        for b_, bb_, t_ in prog.callers(r"^actix_http::h2::dispatcher::handle_response$"):
            for i_, a_ in enumerate(t_["args"]):
                ea = b_.op_expr(a_, 6)
                for y in walk(ea):
                    if y[0] == "place":
                        for p_ in y[2]:
                            up = prog.upvar(b_, p_) if isinstance(p_, str) and p_.startswith(".^") else None
                            if up and e_has_const(up[1], r"Method::HEAD$|method::Method::HEAD$"):
                                head_pos.add(i_ + 1)
                if e_has_const(ea, r"Method::HEAD$"):
                    head_pos.add(i_ + 1)
        uses_head = False
        for x in srcs:
            for y in walk(x):
                if y[0] == "place":
                    for p_ in y[2]:
                        up = prog.upvar(hr, p_) if isinstance(p_, str) and p_.startswith(".^") else None
                        if up and up[1][0] == "arg" and up[1][1] in head_pos:
                            uses_head = True
        ok = any(e_calls(x, r"BodySize::is_eof$") for x in srcs) and uses_head
        ck.ob("C08-c.head-carries-end-flag", "handle_response", ok, hr, bb, "send_response's end-of-stream flag derives from size.is_eof() and from the HEAD flag")
    # the size consulted for the end flag is the one prepare_response adjusted for the status (204/1xx -> None)
    prep = [bb for bb, t in hr.calls(r"h2::dispatcher::prepare_response$")]
    iseof = [bb for bb, t in hr.calls(r"BodySize::is_eof$")]
    ok = bool(prep) and bool(iseof) and all(any(hr.dominates(p_, i_) for p_ in prep) for i_ in iseof)
    ck.ob("C08-c.eof-after-status-adjustment", "handle_response", ok, hr, iseof[0] if iseof else None, "size.is_eof() is evaluated after prepare_response(.., &mut size) rewrote the size for bodiless statuses")
    # early return (no data frames) exactly when that flag is true
    early = []
    for bb in ok_rets:
        if not any(hr.dominates(x, bb) for x in body_polls) and any(hr.dominates(s, bb) for s, t in sr):
            early.append(bb)
    ck.ob("C08-c.no-body-for-head", "handle_response", bool(early), hr, early[0] if early else None, "with the end flag set the function returns right after the head, before any body poll")
    for bp in body_polls:
        # the body loop is reached only with the flag false
        gs = [c for c, lab, a in hr.guards(bp) if lab is False and c[0] == "phi"]
        ck.ob("C08-c.body-only-without-end-flag", "handle_response", bool(gs), hr, bp, "the body is polled only on the false edge of the end-of-stream flag")

    # ---- (d) header rules -----------------------------------------------------------------------
    pr = prog.one(r"^actix_http::h2::dispatcher::prepare_response$")
    appends = [bb for bb, t in pr.calls(r"http::header::map::HeaderMap.*::append$")]
    ck.anchor("C08-d", len(appends), 1, "headers.append (copy of user headers) in prepare_response")
    # simpler and sound: for each candidate name, assume the header is that name and test whether append is reachable
    std = {"connection": "Connection", "transfer-encoding": "TransferEncoding", "upgrade": "Upgrade"}
    for hname, variant in std.items():
        def not_this(c, lab, variant=variant):
            if c[0] == "discr" and (c[2] or "").endswith("StandardHeader"):
                return not label_may_be(lab, variant)
            if c[0] == "discr" and (c[2] or "").endswith("header::name::Repr"):
                return not label_may_be(lab, "Standard")
            return False
        r, _ = reach_under(pr, [not_this])
        # restrict to the loop body: from the iterator's Some edge
        ck.ob("C08-d.connection-header-dropped", hname, not any(a in r for a in appends) or loop_skips(pr, appends, not_this), pr, appends[0], "assuming the header name is `%s`, headers.append is unreachable" % hname)
    for hname in ("keep-alive", "proxy-connection"):
        eqs = [bb for bb, t in pr.calls(r"PartialEq.*::eq$") if any(k[3] == hname for k in e_consts(pr.op_expr(t["args"][1])) + [x for c in e_calls(pr.op_expr(t["args"][1])) for x in e_consts(c)])]
        ok = False
        for bb in eqs:
            # the true edge of this comparison must not reach append within the iteration
            for a in pr.live:
                br = pr.branch(a)
                if br and any(x[0] == "call" and x[3] == bb for x in walk(br[0])):
                    tgt = [tb for lab, tb in br[1] if lab is True]
                    if tgt and not any(ap in pr.reach(tgt, removed=loop_heads(pr)) for ap in appends):
                        ok = True
        ck.ob("C08-d.connection-header-dropped", hname, ok, pr, eqs[0] if eqs else None, "a header named `%s` skips headers.append" % hname)
    # statuses
    stat = {}
    for a in pr.live:
        br = pr.branch(a)
        if br:
            n = norm_cmp(br[0], True)
            if n and n[0] == "Eq" and (e_has_field(n[1], r"ResponseHead\.status$") or e_has_field(n[2], r"ResponseHead\.status$")):
                ks = [x[2] for x in e_consts(n[1]) + e_consts(n[2]) if x[2] is not None]
                tgt = [tb for lab, tb in br[1] if lab is True]
                if ks and tgt:
                    stat[ks[0]] = tgt[0]
    for code in (100, 102, 204):
        ok = False
        if code in stat:
            tb = stat[code]
            for bb in pr.reach([tb]):
                for s in pr.stmts(bb):
                    if s["k"] == "=" and pr.rv_expr(s["rv"], 3)[0] == "agg" and (pr.rv_expr(s["rv"], 3)[2] or "").endswith("BodySize::None") and pr.dominates(tb, bb):
                        ok = True
        ck.ob("C08-d.bodiless-status", str(code), ok, pr, stat.get(code), "status %d sets the body size to None (no content-length, no data frames)" % code)
    ins = [bb for bb, t in pr.calls(r"HeaderMap.*::insert$") if e_has_const(pr.op_expr(t["args"][1]), r"CONTENT_LENGTH$")]
    ck.anchor("C08-d", len(ins), 2, "insert(CONTENT_LENGTH) in prepare_response")
    for i, bb in enumerate(ins):
        ok = any(c[0] == "discr" and (c[2] or "").endswith("BodySize") and labels_in(lab, ("Sized",)) for c, lab, a in pr.guards(bb))
        ck.ob("C08-d.length-from-size", "insert#%d" % i, ok, pr, bb, "content-length is inserted only on the BodySize::Sized arm")
    # user content-length skipped when skip_len
    def not_cl(c, lab):
        if c[0] == "discr" and (c[2] or "").endswith("StandardHeader"):
            return not label_may_be(lab, "ContentLength")
        if c[0] == "discr" and (c[2] or "").endswith("header::name::Repr"):
            return not label_may_be(lab, "Standard")
        return False

    # SK = the bool local(s) tested inside the Content-Length arm of the header-copy loop (the "skip user length" flag)
    SK = set()
    for a in pr.live:
        br = pr.branch(a)
        if br and br[0][0] == "discr" and (br[0][2] or "").endswith("StandardHeader"):
            for lab, tb in br[1]:
                if isinstance(lab, str) and lab == "ContentLength":
                    for x in pr.reach([tb]):
                        bx = pr.branch(x)
                        if bx and pr.dominates(tb, x):
                            c2 = strip_not(bx[0], True)[0]
                            if c2[0] in ("var", "phi") and pr.lty(c2[1]) == "bool":
                                SK.add(c2[1])
    ck.anchor("C08-d", len(SK), 1, "bool local tested in the Content-Length arm of prepare_response's header copy")

    def skip_len_false(c, lab):
        c2, tr = strip_not(c, True)
        return isinstance(lab, bool) and is_local(c2, SK) and (lab if tr else not lab) is False
    ck.ob("C08-d.user-length-skipped", "content-length", loop_skips(pr, appends, not_cl, [skip_len_false]), pr, appends[0], "assuming the header is content-length and skip_len is set, headers.append is unreachable within the iteration")

    # ---- (e) request side releases capacity --------------------------------------------------------
    pn = prog.one(r"^<actix_http::h2::Payload as futures_core::stream::Stream>::poll_next$")
    rel = [bb for bb, t in pn.calls(r"FlowControl::release_capacity$")]
    somes = [(bb, e) for bb, e in pn.ret_exprs() if agg_chain(e)[0][:3] == ["core::task::poll::Poll::Ready", "core::option::Option::Some", "core::result::Result::Ok"]]
    ck.anchor("C08-e", len(somes), 1, "Ready(Some(Ok(chunk))) return of h2::Payload::poll_next")
    for bb, e in somes:
        ok = any(pn.dominates(r_, bb) for r_ in rel)
        amt_ok = any(e_calls(pn.op_expr(pn.term(r_)["args"][1]), r"Bytes::len$") for r_ in rel)
        ck.ob("C08-e.capacity-released", "h2::Payload::poll_next", ok and amt_ok, pn, bb, "every chunk handed to the application is preceded by release_capacity(chunk.len())")

    # ---- (f) connection-level plumbing that every stream depends on ---------------------------------------------
    # keep-alive ping-pong: a PONG ends the "ping in flight" phase; if it does not, the next expiry of the (re-armed)
    # interval timer is taken for a pong timeout and the connection, with every response still streaming, is dropped
    dp = prog.one(r"^<actix_http::h2::dispatcher::Dispatcher<T, S, B, X, U> as core::future::future::Future>::poll$")
    pong_ready = [tb for a in dp.live for br in [dp.branch(a)] if br and br[0][0] == "discr" and e_calls(br[0], r"PingPong::poll_pong$") for lab, tb in br[1] if lab == "Ready"]
    ck.anchor("C08-f", len(pong_ready), 1, "Ready edge of poll_pong in h2 Dispatcher::poll")
    clears = [bb for bb, i, s_ in dp.assigns() if any(isinstance(x, str) and x.endswith(".in_flight") for x in s_["p"][1:]) and dp.rv_expr(s_["rv"], 2)[:3] == ("const", None, 0)]
    sets = [bb for bb, i, s_ in dp.assigns() if any(isinstance(x, str) and x.endswith(".in_flight") for x in s_["p"][1:]) and dp.rv_expr(s_["rv"], 2)[:3] == ("const", None, 1)]
    pongs = [bb for bb, t in dp.calls(r"PingPong::poll_pong$")]
    good_rets = set(bb for bb, e in dp.ret_exprs() if not (e[0] == "call" and rx(r"from_residual$").search(e[1] or "")) and not any(is_agg(x, r"Result::Err$") for x in walk(e)))
    for tb in pong_ready:
        # from the received pong, before poll_pong is asked again or the function returns, in_flight is cleared
        ok = bool(clears) and dp.must_pass([tb], good_rets | set(pongs), clears)[0]
        ck.ob("C08-f.pong-ends-in-flight", "h2 Dispatcher::poll", ok, dp, tb, "a received PONG clears ping_pong.in_flight on every path (otherwise the re-armed keep-alive interval is read as a pong timeout and the connection is closed under live streams)")
    pings = [bb for bb, t in dp.calls(r"PingPong::send_ping$")]
    for bb in pings:
        ok = bool(sets) and dp.must_pass_after(bb, good_rets | set(pongs), sets)[0]
        ck.ob("C08-f.ping-starts-in-flight", "h2 Dispatcher::poll", ok, dp, bb, "sending a PING marks it in flight before the pong is awaited")
    # flow-control windows: each configured size reaches the setter of the same name (the stream window must not get the
    # connection's size: one stream could then occupy the whole connection-level window)
    PAIRS = {"initial_window_size": "h2_initial_window_size", "initial_connection_window_size": "h2_initial_connection_window_size"}
    n_w = 0
    for b in prog.find(r"^actix_http::h2::handshake_with_timeout$"):
        for bb, t in b.calls(r"h2::server::Builder::(initial_window_size|initial_connection_window_size)$"):
            n_w += 1
            setter = cname(t).split("::")[-1]
            arg = b.op_expr(t["args"][1], 4)
            ok = bool(e_calls(arg, r"ServiceConfig::%s$" % PAIRS[setter])) and not e_calls(arg, r"ServiceConfig::%s$" % [v for k, v in PAIRS.items() if k != setter][0])
            ck.ob("C08-f.window-sizes-not-swapped", setter, ok, b, bb, "Builder::%s receives ServiceConfig::%s(): %s" % (setter, PAIRS[setter], short(arg, 3)))
    ck.anchor("C08-f", n_w, 2, "flow-control window setters in handshake_with_timeout")


def _strip(e):
    while isinstance(e, tuple) and e[0] == "cast":
        e = e[1]
    return e


def loop_heads(body):
    """blocks that call Iterator::next (start of an iteration)"""
    return {bb for bb, t in body.calls(r"Iterator>::next$|Iterator::next$")}


def loop_skips(body, appends, name_pred, extra=()):
    """within one iteration of the header-copy loop: under the assumption
    `name_pred` (impossible edges), no append is reachable from the iteration's
    start before the next Iterator::next"""
    heads = loop_heads(body)
    if not heads:
        return False
    rem = set(body.dead_edges())
    for p in [name_pred] + list(extra):
        rem |= edges_where(body, p)
    for h in heads:
        r = body.reach(body.succ[h], removed=heads, removed_edges=rem)
        if any(a in r for a in appends):
            return False
    return True
