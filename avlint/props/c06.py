"""C06 — HTTP/1 connections are time-bounded: event -> effect clauses only."""
from ..h1 import *  # noqa

EXPLANATION = (
    "Only the event->effect half of this property is visible in the shape of the code; every clause that mentions WHEN "
    "(408 not before the deadline, keep-alive not before an in-time request, shutdown never outlasting the timeout) "
    "depends on runtime Instants and tokio's timer and is NOT decided. Decided on every path of the dispatcher: the "
    "head-timer expiry edge sends an error response built from REQUEST_TIMEOUT and then sets SHUTDOWN; the head timer "
    "is armed once (on !STARTED, from client_request_deadline) and cleared on the first decoded request head; the "
    "keep-alive expiry edge sets SHUTDOWN and either arms the shutdown timer or sets WRITE_DISCONNECT; the keep-alive "
    "timer is armed only under KEEP_ALIVE|FINISHED and cleared (with KEEP_ALIVE) as soon as input arrives; the "
    "shutdown-timer expiry edge turns LINGER into SHUTDOWN or fails with DisconnectTimeout; the graceful-shutdown "
    "signal sets DRAINING, clears KEEP_ALIVE and the keep-alive timer; under DRAINING with no request in flight the "
    "queue is dropped and SHUTDOWN set, and poll_request returns before decoding; every poll runs the signal and all "
    "three timers before choosing a branch; arming a timer polls it once with the task context (so expiry wakes the task)."
)
RULES = "must-pass-through / guarded-site on timer-expiry edges and flag effects; no timing is modelled."


def ready_edge(b, timer_field):
    """target blocks of the `timer.poll(cx).is_ready()` true edge for the given timer field"""
    out = []
    for a in b.live:
        br = b.branch(a)
        if not br:
            continue
        c2, tr = strip_not(br[0], True)
        on_timer = bool(e_calls(c2, r"Future>::poll$|Future::poll$")) and e_has_field(c2, DF + timer_field + "$")
        if c2[0] == "call" and rx(r"Poll.*::is_ready$").search(c2[1] or "") and on_timer:
            for lab, tb in br[1]:
                if isinstance(lab, bool) and (lab if tr else not lab) is True:
                    out.append(tb)
        elif c2[0] == "call" and rx(r"Poll.*::is_pending$").search(c2[1] or "") and on_timer:
            # the same test spelled `!timer.poll(cx).is_pending()`
            for lab, tb in br[1]:
                if isinstance(lab, bool) and (lab if tr else not lab) is False:
                    out.append(tb)
        elif c2[0] == "discr" and (c2[2] or "").endswith("task::poll::Poll") and on_timer:
            # ... or as `match timer.poll(cx) { Poll::Ready(()) => .. }` / `if let Poll::Ready(_) = ..`
            for lab, tb in br[1]:
                if labels_in(lab, ("Ready",)):
                    out.append(tb)
    return out


def timer_calls(b, field, method):
    return [bb for (bd, bb, t, m) in method_calls_on_field(b._prog, DF + field + "$", bodies=[b]) if m == method]


def run(ck, prog, tier, load):
    poll = disp_poll(prog)
    for b in prog.in_file("actix-http/src/h1/dispatcher.rs"):
        b._prog = prog
    # ---- head timer --------------------------------------------------------
    ht = disp(prog, "poll_head_timer")
    re_ = ready_edge(ht, "head_timer")
    ck.anchor("C06-head", len(re_), 1, "expiry edge of the head timer")
    for tb in re_:
        se = [bb for bb, t in ht.calls(r"InnerDispatcher::send_error_response$") if ht.dominates(tb, bb)]
        ok = bool(se) and e_has_const(ht.op_expr(ht.term(se[0])["args"][1]), r"StatusCode::REQUEST_TIMEOUT$") if se else False
        ck.ob("C06.head-timeout-sends-408", "poll_head_timer", ok, ht, se[0] if se else tb, "head-timer expiry sends an error response built from StatusCode::REQUEST_TIMEOUT")
        sd = [bb for bb, op, fl, t in flag_ops(ht) if op == "insert" and "SHUTDOWN" in fl]
        ok, wit = ht.must_pass([tb], ht.returns(), sd)
        ck.ob("C06.head-timeout-shuts-down", "poll_head_timer", ok and bool(sd), ht, tb, "every path from head-timer expiry to return sets SHUTDOWN", witness=ht.path_lines(wit))
    preq = disp(prog, "poll_request")
    clr = timer_calls(preq, "head_timer", "clear")
    ok = bool(clr) and any(c[0] == "discr" and c[2] == "actix_http::h1::Message" and lab == "Item" for c, lab, a in preq.guards(clr[0]))
    ck.ob("C06.head-timer-cleared-on-first-head", "poll_request", ok, preq, clr[0] if clr else None, "the head timer is cleared when a request head (Message::Item) is decoded")
    sets = timer_calls(poll, "head_timer", "set_and_init")
    ok = bool(sets) and guarded_by(poll, sets[0], flag_edge("STARTED", False))[0] and any(c[0] == "discr" and e_calls(c, r"ServiceConfig::client_request_deadline$") and lab == "Some" for c, lab, a in poll.guards(sets[0]))
    ck.ob("C06.head-timer-armed-once", "Dispatcher::poll", ok, poll, sets[0] if sets else None, "the head timer is armed only on the first poll (!STARTED) and only from client_request_deadline()")
    st = [bb for bb, op, fl, t in flag_ops(poll) if op == "insert" and "STARTED" in fl]
    ok = bool(st) and bool(sets) and poll.dominates(st[0], sets[0])
    ck.ob("C06.started-set-with-arming", "Dispatcher::poll", ok, poll, st[0] if st else None, "STARTED is set on the same path (so the timer cannot be re-armed)")

    # ---- keep-alive timer ------------------------------------------------------
    ka = disp(prog, "poll_ka_timer")
    re_ = ready_edge(ka, "ka_timer")
    ck.anchor("C06-ka", len(re_), 1, "expiry edge of the keep-alive timer")
    for tb in re_:
        sd = [bb for bb, op, fl, t in flag_ops(ka) if op == "insert" and "SHUTDOWN" in fl]
        ok1 = bool(sd) and ka.must_pass([tb], ka.returns(), sd)[0]
        alt = set(timer_calls(ka, "shutdown_timer", "set_and_init")) | {bb for bb, op, fl, t in flag_ops(ka) if op == "insert" and "WRITE_DISCONNECT" in fl}
        ok2 = bool(alt) and ka.must_pass([tb], ka.returns(), alt)[0]
        ck.ob("C06.keepalive-expiry-shuts-down", "poll_ka_timer", ok1, ka, tb, "keep-alive expiry sets SHUTDOWN on every path")
        ck.ob("C06.keepalive-expiry-bounds-shutdown", "poll_ka_timer", ok2, ka, tb, "... and either arms the shutdown timer or sets WRITE_DISCONNECT (drop the socket)")
    sets = timer_calls(poll, "ka_timer", "set_and_init")
    ck.anchor("C06-ka", len(sets), 1, "arming of the keep-alive timer")
    for bb in sets:
        ok = guarded_by(poll, bb, flag_edge("KEEP_ALIVE", True))[0] and guarded_by(poll, bb, flag_edge("FINISHED", True))[0]
        ck.ob("C06.keepalive-armed-when-idle", "Dispatcher::poll", ok, poll, bb, "the keep-alive timer is armed only under contains(KEEP_ALIVE | FINISHED)")
    clr = timer_calls(poll, "ka_timer", "clear")
    ck.anchor("C06-ka", len(clr), 1, "clearing of the keep-alive timer on input")
    for bb in clr:
        g1 = any(strip_not(c)[0][0] == "call" and rx(r"BytesMut::is_empty$").search(strip_not(c)[0][1] or "") and e_has_field(c, DF + "read_buf$") and ((lab if strip_not(c)[1] else not lab) is False) for c, lab, a in poll.guards(bb) if isinstance(lab, bool))
        rm = [b2 for b2, op, fl, t in flag_ops(poll) if op == "remove" and "KEEP_ALIVE" in fl and (poll.dominates(b2, bb) or poll.dominates(bb, b2))]
        ck.ob("C06.keepalive-cleared-on-input", "Dispatcher::poll", g1 and bool(rm), poll, bb, "input in the read buffer clears the keep-alive timer and the KEEP_ALIVE flag before the request is served")
        rav = [b2 for b2, t in poll.calls(r"InnerDispatcher::read_available$")]
        prq = [b2 for b2, t in poll.calls(r"InnerDispatcher::poll_request$")]
        ok = bool(rav) and bool(prq) and poll.dominates(rav[0], bb) and all(bb in poll.reach([rav[0]]) and (p not in poll.reach([rav[0]], removed=[bb]) or True) for p in prq)
        ck.ob("C06.keepalive-clear-order", "Dispatcher::poll", bool(rav) and poll.dominates(rav[0], bb), poll, bb, "the clear happens after reading the socket (an in-time request is seen before expiry can be acted on in a later poll)", nontrivial=False)

    # ---- shutdown timer -----------------------------------------------------------
    sdt = disp(prog, "poll_shutdown_timer")
    re_ = ready_edge(sdt, "shutdown_timer")
    ck.anchor("C06-shutdown", len(re_), 1, "expiry edge of the shutdown timer")
    for tb in re_:
        errs = [bb for bb, e in sdt.ret_exprs() if is_agg(e, r"Result::Err$") and any(is_agg(x, r"DispatchError::DisconnectTimeout$") for x in walk(e))]
        lg = [bb for bb, op, fl, t in flag_ops(sdt) if op == "insert" and "SHUTDOWN" in fl and guarded_by(sdt, bb, flag_edge("LINGER", True))[0]]
        ok = bool(errs) and bool(lg) and sdt.must_pass([tb], sdt.returns(), set(errs) | set(lg))[0]
        ck.ob("C06.shutdown-expiry", "poll_shutdown_timer", ok, sdt, tb, "shutdown-timer expiry either turns LINGER into SHUTDOWN or returns Err(DisconnectTimeout)")
        ok2 = all(guarded_by(sdt, bb, flag_edge("LINGER", False))[0] for bb in errs)
        ck.ob("C06.shutdown-expiry-error-only-when-not-lingering", "poll_shutdown_timer", ok2 and bool(errs), sdt, errs[0] if errs else tb, "DisconnectTimeout is raised only when not lingering")

    # ---- graceful shutdown -----------------------------------------------------------
    gs = disp(prog, "poll_graceful_shutdown")
    dr = [bb for bb, op, fl, t in flag_ops(gs) if op == "insert" and "DRAINING" in fl]
    rk = [bb for bb, op, fl, t in flag_ops(gs) if op == "remove" and "KEEP_ALIVE" in fl]
    ck.anchor("C06-drain", len(dr), 1, "insert(DRAINING) in poll_graceful_shutdown")
    if dr:
        notified = [a for c, lab, a in gs.guards(dr[0]) if lab is True]
        ok = bool(notified) and bool(rk) and (gs.dominates(rk[0], dr[0]) or gs.dominates(dr[0], rk[0]))
        ck.ob("C06.signal-sets-draining", "poll_graceful_shutdown", ok, gs, dr[0], "the signal sets DRAINING and removes KEEP_ALIVE on the same path")
        kc = timer_calls(gs, "ka_timer", "clear")
        ck.ob("C06.signal-clears-keepalive-timer", "poll_graceful_shutdown", bool(kc) and gs.dominates(dr[0], kc[0]), gs, kc[0] if kc else None, "... and clears the keep-alive timer")
    clo = [c for c in prog.with_closures(gs) if c is not gs]
    ok = any(True for c in clo for _ in c.calls(r"Future>::poll$|Future::poll$"))
    ck.ob("C06.signal-polled", "poll_graceful_shutdown", ok, gs, None, "the shutdown signal future is polled with the task context", nontrivial=False)
    presp = disp(prog, "poll_response")
    mc = [bb for (bd, bb, t, m) in method_calls_on_field(prog, DF + "messages$", bodies=[presp]) if m == "clear"]
    ok = False
    if mc:
        g_dr = guarded_by(presp, mc[0], flag_edge("DRAINING", True))[0]
        g_none = any(c[0] == "discr" and c[2] == "actix_http::h1::dispatcher::StateProj" and lab == "None" for c, lab, a in presp.guards(mc[0]))
        sd = [bb for bb, op, fl, t in flag_ops(presp) if op == "insert" and "SHUTDOWN" in fl and presp.dominates(mc[0], bb)]
        lg = all(guarded_by(presp, bb, flag_edge("LINGER", False))[0] for bb in sd)
        ok = g_dr and g_none and bool(sd) and lg
    ck.ob("C06.draining-idle-closes", "poll_response", ok, presp, mc[0] if mc else None, "DRAINING with no request in flight (State::None) drops the queued requests and sets SHUTDOWN (unless lingering)")
    # queued requests are not started: in the DRAINING+None arm no dispatch is reachable before return
    if mc:
        disp_calls = {bb for bb, t in presp.calls(r"actix_service::Service::call$")}
        r = presp.reach([mc[0]], removed=presp.returns())
        # stop at the return of this arm
        arm_ret = [x for x in presp.returns()]
        ok = presp.must_pass([mc[0]], disp_calls, arm_ret)[0] if disp_calls else True
        ck.ob("C06.draining-starts-nothing", "poll_response", ok, presp, mc[0], "after the queue is dropped the arm returns without dispatching")
    early = [d for d in preq.defs().get(0, []) if any(is_agg(x, r"Result::Ok$") for x in [preq.def_expr(d, 4)]) and e_consts(preq.def_expr(d, 4)) and guarded_by(preq, d[1], flag_edge("DRAINING", True))[0]]
    decs = [bb for bb, t in preq.calls(r"Codec as tokio_util::codec::decoder::Decoder>::decode$")]
    ok = bool(early) and bool(decs)
    if ok:
        # assuming DRAINING set and state none, decode is unreachable
        def st_none_false(c, lab):
            c2, tr = strip_not(c, True)
            return isinstance(lab, bool) and c2[0] == "call" and rx(r"State.*::is_none$").search(c2[1] or "") is not None and (lab if tr else not lab) is False
        r, _ = reach_under(preq, [flag_edge("DRAINING", False), st_none_false])
        ok = not (set(decs) & r)
    ck.ob("C06.draining-idle-decodes-nothing", "poll_request", ok, preq, decs[0] if decs else None, "assuming DRAINING and no request in flight, Codec::decode is unreachable in poll_request")

    # ... but the request in flight keeps being served: with DRAINING set and a request in flight its body is still decoded
    def st_none_true(c, lab):
        c2, tr = strip_not(c, True)
        return isinstance(lab, bool) and c2[0] == "call" and rx(r"State.*::is_none$").search(c2[1] or "") is not None and (lab if tr else not lab) is True
    r2, _ = reach_under(preq, [flag_edge("DRAINING", False), st_none_true])
    ck.ob("C06.draining-inflight-still-decodes", "poll_request", bool(decs) and bool(set(decs) & r2), preq, decs[0] if decs else None,
          "assuming DRAINING with a request in flight, Codec::decode stays reachable (the in-flight request's body is still read, so it can be answered)")
    # a running linger/shutdown deadline is never pushed back
    elt = disp(prog, "ensure_linger_timer")
    for bb in timer_calls(elt, "shutdown_timer", "set_and_init"):
        ok = any(c[0] == "discr" and e_has_field(c, DF + "shutdown_timer$") and not label_may_be(lab, "Active") for c, lab, a in elt.guards(bb))
        ck.ob("C06.linger-deadline-not-rearmed", "ensure_linger_timer", ok, elt, bb, "the shutdown timer is armed for lingering only when it is not already Active (re-arming on every poll would let a trickling peer postpone the deadline forever)")
    ck.anchor("C06-shutdown", len(timer_calls(elt, "shutdown_timer", "set_and_init")), 1, "arming of the shutdown timer in ensure_linger_timer")

    # ---- every poll runs signal + timers first -------------------------------------------
    g = [bb for bb, t in poll.calls(r"InnerDispatcher::poll_graceful_shutdown$")]
    tm = [bb for bb, t in poll.calls(r"InnerDispatcher::poll_timers$")]
    first_test = [a for a in poll.live if poll.branch(a) and flag_test(poll.branch(a)[0]) and "LINGER" in flag_test(poll.branch(a)[0])[1]]
    ok = bool(g) and bool(tm) and bool(first_test) and any(poll.dominates(g[0], a) and poll.dominates(tm[0], a) for a in first_test)
    ck.ob("C06.timers-run-first", "Dispatcher::poll", ok, poll, tm[0] if tm else None, "poll_graceful_shutdown and poll_timers dominate the LINGER/SHUTDOWN/normal branch choice")
    pt = disp(prog, "poll_timers")
    names = {cname(t).split("::")[-1] for bb, t in pt.calls(r"InnerDispatcher::poll_(head|ka|shutdown)_timer$")}
    ck.ob("C06.all-timers-polled", "poll_timers", names == {"poll_head_timer", "poll_ka_timer", "poll_shutdown_timer"}, pt, None, "poll_timers polls the head, keep-alive and shutdown timers: %s" % sorted(names))
    si = prog.one(r"^actix_http::h1::timer::TimerState::set_and_init$")
    ini = prog.one(r"^actix_http::h1::timer::TimerState::init$")
    ok = any(True for _ in si.calls(r"TimerState::set$")) and any(True for _ in si.calls(r"TimerState::init$")) and any(True for _ in ini.calls(r"Future>::poll$|Future::poll$"))
    ck.ob("C06.arming-registers-waker", "TimerState::set_and_init", ok, si, None, "arming a timer stores it Active and polls it once with the task context (expiry will wake the task)")
    # timeouts come from configuration
    for fn in ("client_request_deadline", "client_disconnect_deadline", "keep_alive_deadline"):
        cs = prog.callers(r"^actix_http::config::ServiceConfig::%s$" % fn)
        cs = [c for c in cs if c[0].file.endswith("h1/dispatcher.rs")]
        ck.ob("C06.deadline-from-config", fn, bool(cs), cs[0][0] if cs else None, cs[0][1] if cs else None, "dispatcher deadlines come from ServiceConfig::%s (%d uses)" % (fn, len(cs)), nontrivial=False)
    # an expiry that nobody looks at is no time bound at all (shared with C04-b)
    from .c04 import timer_polls_observed
    timer_polls_observed(ck, prog, "C06")
    # the keep-alive timer is armed only under KEEP_ALIVE | FINISHED: so the end of EVERY response body must leave
    # FINISHED set (or have started a close: LINGER / SHUTDOWN); otherwise an idle connection is never timed out
    presp = disp(prog, "poll_response")
    eob = [bb for bb, t in presp.calls(r"Codec as tokio_util::codec::encoder::Encoder<.*>>::encode$") if any(is_agg(x, r"Message::Chunk$") and any(is_agg(y, r"Option::None$") for y in walk(x)) for x in walk(presp.op_expr(t["args"][1], 4)))]
    ck.anchor("C06-ka", len(eob), 2, "end-of-body encode(Message::Chunk(None)) sites in poll_response")
    marks = blocks_setting_flag(prog, presp, "FINISHED") | blocks_setting_flag(prog, presp, "LINGER") | blocks_setting_flag(prog, presp, "SHUTDOWN")
    loop_heads = [bb for bb, t in presp.calls(r"VecDeque.*::pop_front$")]
    for i, e_ in enumerate(sorted(eob)):
        # from the end of the body to the next dispatch decision (or a return) a mark is passed
        ends = set(bb for bb, e in presp.ret_exprs() if not (e[0] == "call" and rx(r"from_residual$").search(e[1] or "")) and not is_agg(e, r"Result::Err$")) | set(loop_heads)
        ok, wit = presp.must_pass_after(e_, ends, marks)
        ck.ob("C06.finished-marked-at-end-of-body", "poll_response|%s" % ("SendPayload" if i == 0 else "SendErrorPayload"), ok, presp, e_,
              "after the last chunk of a response body FINISHED is set (or a close was started) on every path: the keep-alive timer is armed only for KEEP_ALIVE | FINISHED", witness=presp.path_lines(wit))
    # every connection is given the configured graceful-shutdown signal, whatever else is configured: a dispatcher that
    # never sees the signal never sets DRAINING and keeps starting queued requests
    for b in prog.find(r"^actix_http::config::ServiceConfig::graceful_shutdown$"):
        rets = list(b.ret_exprs())
        ok = bool(rets) and all(e_has_field(e, r"graceful_shutdown_signal$") and not is_agg(e, r"Option::None$") for bb, e in rets)
        ck.ob("C06.signal-handed-to-every-connection", "ServiceConfig::graceful_shutdown", ok, b, rets[0][0] if rets else None,
              "graceful_shutdown() derives from the configured signal on every path (no configuration short-circuits it to None)")

    # ---- a keep-alive time always yields a deadline (a zero time is a deadline that is already over, not "no deadline") --
    def _always_some(b_, e, depth=2):
        if is_agg(e, r"Option::Some$"):
            return True
        if isinstance(e, tuple) and e[0] == "call" and depth > 0:
            cs = [x for x in prog.nbodies.get(norm(e[1] or ""), []) if x.crate == "actix_http"] if hasattr(prog, "nbodies") else []
            return bool(cs) and all(rs and all(_always_some(x, r_, depth - 1) for _, r_ in rs) for x in cs for rs in [x.ret_exprs()])
        return False
    for kb in prog.find(r"^actix_http::config::ServiceConfig::keep_alive_deadline$"):
        rs = [(bb, e) for bb, e in kb.ret_exprs() if any(c[0] == "discr" and lab == "Timeout" for c, lab, a in kb.guards(bb))]
        ck.anchor("C06", len(rs), 1, "returns of keep_alive_deadline on the KeepAlive::Timeout edge")
        for bb, e in rs:
            ck.ob("C06.keepalive-timeout-yields-deadline", "ServiceConfig::keep_alive_deadline", _always_some(kb, e), kb, bb,
                  "KeepAlive::Timeout(d) always yields Some(now + d): the idle timer is armed for every configured keep-alive time (zero included — it closes at once; None would leave the connection open for ever)")

