"""C03 — HTTP/1 reuse discipline: close means close; unread bodies never reparsed."""
from ..h1 import *  # noqa

EXPLANATION = (
    "Static rules over actix_http::h1::dispatcher: (a) sibling agreement — send_response and send_error_response, and the "
    "SendPayload and SendErrorPayload arms of poll_response (which the source marks as duplicated), perform the same "
    "guarded effects (flag writes, enter_linger, set_connection_type(Close), state transitions) under the same guards; "
    "(b) every dispatch of a further request (Service::call on flow.service / flow.expect) must be conditioned on the "
    "connection still being persistent (a test reaching the codec's keep-alive state or a flag derived from it) — today "
    "neither dispatch path is, which is recorded as a known finding (a pipelined request queued behind a response that "
    "announced `connection: close` is still dispatched and answered); (c) KEEP_ALIVE is only ever written by one "
    "flags.set whose value is computed under payload.is_none(), the FINISHED && !KEEP_ALIVE -> SHUTDOWN transition also "
    "requires payload.is_none(), should_close_for_unread_payload can be true only with an unfinished payload and is "
    "false only when the payload was dropped by the handler and is drainable; both senders force ConnectionType::Close "
    "when it is true or when DRAINING; (d) every queued error response is accompanied on every path by READ_DISCONNECT "
    "and ends the decode loop; (e) while LINGER is set nothing is decoded and the read buffer is discarded. "
    "Which of several timers wins a race is not decided."
)
RULES = "sibling agreement over a declared effect alphabet; guarded-site; must-pass-through; never-reach; flag effect sets."


def effects(body, region=None, base_guard=None):
    """set of (effect, guards) pairs inside `region` (default: whole body);
    guards are canonical (cond,label) strings of dominating branch edges that
    lie inside the region"""
    out = set()
    blocks = sorted(body.live if region is None else region)

    def gset(bb):
        gs = []
        for c, lab, a in body.guards(bb):
            if region is not None and a not in region:
                continue
            if is_noise(body, a):
                continue
            gs.append(_norm("%s=%s" % (canon(c, 5), lab_s(lab))))
        return frozenset(gs)

    for bb in blocks:
        if is_noise(body, bb):
            continue
        t = body.term(bb)
        if t["k"] != "call":
            continue
        n = cname(t)
        eff = None
        if rx(r"^actix_http::h1::dispatcher::_::(insert|remove|set)$").search(n) and is_flags_recv(body.op_expr(t["args"][0])):
            eff = "flags.%s(%s)" % (n.split("::")[-1], "|".join(sorted(flag_consts(body.op_expr(t["args"][1])))))
        elif rx(r"InnerDispatcher::enter_linger$").search(n):
            eff = "enter_linger"
        elif rx(r"set_connection_type$").search(n):
            eff = "set_connection_type(%s)" % canon(body.op_expr(t["args"][-1]), 3)
        elif rx(r"InnerDispatcher::send_response_inner$").search(n):
            eff = "send_response_inner"
        elif rx(r"core::pin::Pin<.*>::set$|core::pin::Pin::set$").search(n):
            v = body.op_expr(t["args"][1])
            if v[0] == "agg" and "::State::" in (v[2] or ""):
                nm = v[2].split("::")[-1]
                eff = "state.set(%s)" % ("SendBody" if nm in ("SendPayload", "SendErrorPayload") else nm)
        elif rx(r"Encoder<.*>>::encode$").search(n):
            m = body.op_expr(t["args"][1])
            kinds = [("::".join(x[2].split("::")[-1:]) + ("(Some)" if x[3] and is_agg(x[3][0], "Option::Some$") else "(None)" if x[3] and is_agg(x[3][0], "Option::None$") else "")) for x in walk(m) if x[0] == "agg" and "Message::" in (x[2] or "")]
            eff = "encode(%s)" % ",".join(kinds)
        elif rx(r"should_close_for_unread_payload$").search(n):
            eff = "should_close_for_unread_payload"
        elif rx(r"VecDeque.*::is_empty$").search(n) and e_has_field(body.op_expr(t["args"][0]), DF + "messages$"):
            eff = "messages.is_empty"
        if eff:
            out.add((eff, gset(bb)))
    return out


import re as _re


def _norm(s):
    s = s.replace("SendErrorPayload", "SendBody").replace("SendPayload", "SendBody")
    return _re.sub(r"MessageBody>?::poll_next", "MessageBody::poll_next", s)


def diff_effects(a, b):
    only_a = sorted("%s under {%s}" % (e, "; ".join(sorted(g))) for e, g in a - b)
    only_b = sorted("%s under {%s}" % (e, "; ".join(sorted(g))) for e, g in b - a)
    return only_a, only_b


def run(ck, prog, tier, load):
    poll = disp_poll(prog)
    presp = disp(prog, "poll_response")
    preq = disp(prog, "poll_request")
    hreq = disp(prog, "handle_request")

    # ---- (a) sibling agreement ---------------------------------------------
    sr = disp(prog, "send_response")
    se = disp(prog, "send_error_response")
    ea, eb = effects(sr), effects(se)
    ck.anchor("C03-a", min(len(ea), len(eb)), 3, "guarded effects in send_response / send_error_response")
    oa, ob = diff_effects(ea, eb)
    ck.ob("C03-a.senders-agree", "send_response~send_error_response", not oa and not ob, sr, None,
          "both senders perform the same guarded effects (%d). only in send_response: %s; only in send_error_response: %s" % (len(ea), oa[:3], ob[:3]))
    arms = {}
    for a in presp.live:
        br = presp.branch(a)
        if br and br[0][0] == "discr" and br[0][2] == "actix_http::h1::dispatcher::StateProj":
            for lab, tb in br[1]:
                if lab in ("SendPayload", "SendErrorPayload"):
                    arms[lab] = (a, tb)
    ck.anchor("C03-a", len(arms), 2, "SendPayload / SendErrorPayload arms of poll_response")
    if len(arms) == 2:
        regs = {}
        for lab, (a, tb) in arms.items():
            # region = blocks dominated by the arm's first block, minus the loop continuation
            regs[lab] = {b for b in presp.live if presp.dominates(tb, b)}
        ea = effects(presp, regs["SendPayload"])
        eb = effects(presp, regs["SendErrorPayload"])
        ck.anchor("C03-a", min(len(ea), len(eb)), 3, "guarded effects in the two send-body arms")
        oa, ob = diff_effects(ea, eb)
        ck.ob("C03-a.body-arms-agree", "SendPayload~SendErrorPayload", not oa and not ob, presp, arms["SendPayload"][1],
              "both send-body arms perform the same guarded effects (%d). only in SendPayload: %s; only in SendErrorPayload: %s" % (len(ea), oa[:3], ob[:3]))

    # ---- both senders force Close when draining / unread payload -------------
    for b in (sr, se):
        cl = [bb for bb, t in b.calls(r"set_connection_type$") if any(is_agg(x, r"ConnectionType::Close$") for x in walk(b.op_expr(t["args"][-1])))]
        ok = False
        if cl:
            # the guard variable must be derived from DRAINING and from should_close_for_unread_payload
            conds = [x for c, lab, a in b.guards(cl[0]) for x in deep_conds(b, c)]
            has_dr = any(ft and "DRAINING" in ft[1] for ft in (flag_test(x) for c in conds for x in walk(c) if x[0] == "call"))
            has_cl = any(e_calls(c, r"should_close_for_unread_payload$") for c in conds)
            ok = has_dr and has_cl
        ck.ob("C03-a.sender-forces-close", b.npath.split("::")[-1], ok, b, cl[0] if cl else None,
              "ConnectionType::Close is forced under a condition derived from DRAINING and from should_close_for_unread_payload")

    # ---- (b) no dispatch after a response that announced close ----------------
    def keepalive_aware(c):
        return bool(e_calls(c, r"h1::codec::Codec::keep_alive$")) or e_has_field(c, r"Codec\.conn_type$") or (flag_test(c) is not None and flag_test(c)[1] & {"KEEP_ALIVE"})

    n_d = 0
    for b in (presp, hreq):
        for bb, t in b.calls(r"actix_service::Service::call$"):
            recv = b.op_expr(t["args"][0])
            if not e_has_field(recv, r"HttpFlow\.(service|expect)$"):
                continue
            n_d += 1
    ck.anchor("C03-b", n_d, 2, "Service::call dispatch sites on flow.service / flow.expect")
    # dispatch path 1: queued message popped in poll_response
    pops = [bb for (bd, bb, t, m) in method_calls_on_field(prog, DF + "messages$", bodies=[presp]) if m == "pop_front"]
    ck.anchor("C03-b", len(pops), 1, "messages.pop_front() in poll_response")
    for bb in pops:
        ok = any(keepalive_aware(c) for c, lab, a in presp.guards(bb))
        ck.ob("C03-b.dispatch-after-close", "poll_response|messages.pop_front", ok, presp, bb,
              "the next queued request is taken for dispatch without any test of the connection's persistence: a request pipelined behind a response that announced `connection: close` is still dispatched")
    # dispatch path 2: eager handle_request from poll_request when state is none
    hcalls = [bb for bb, t in preq.calls(r"InnerDispatcher::handle_request$")]
    ck.anchor("C03-b", len(hcalls), 1, "handle_request call in poll_request")
    for bb in hcalls:
        ok = any(keepalive_aware(c) for c, lab, a in preq.guards(bb))
        ck.ob("C03-b.dispatch-after-close", "poll_request|handle_request", ok, preq, bb,
              "a freshly decoded request is dispatched at once when no handler is active, without any test that the previous response kept the connection open")

    # ---- (c) keep-alive only with the body fully decoded ----------------------
    ka_writes = []
    for b in prog.in_file("actix-http/src/h1/dispatcher.rs"):
        for bb, op, fl, t in flag_ops(b):
            if "KEEP_ALIVE" in fl and op in ("insert", "set", "toggle"):
                ka_writes.append((b, bb, op, t))
    ck.anchor("C03-c", len(ka_writes), 1, "writes that can set KEEP_ALIVE")
    PAY = DF + r"payload$"
    for b, bb, op, t in ka_writes:
        ok = False
        if op == "set" and b is presp:
            v = t["args"][2]
            pl = v.get("move") or v.get("copy")
            if pl and len(pl) == 1:
                defs = b.defs().get(pl[0], [])
                nonfalse = [d for d in defs if not (d[0] == "=" and d[3]["k"] == "use" and d[3]["ops"][0].get("const", {}).get("int") == 0)]
                ok = bool(nonfalse)
                for d in nonfalse:
                    g = any(strip_not(c)[0][0] == "call" and rx(r"Option::is_none$").search(strip_not(c)[0][1] or "") and e_has_field(c, PAY) and (lab is strip_not(c)[1]) for c, lab, a in b.guards(d[1]))
                    e = b.def_expr(d, 6)
                    ok = ok and g and bool(e_calls(e, r"Codec::keep_alive$"))
        ck.ob("C03-c.keep-alive-needs-body-done", "%s|%s" % (b.npath.split("::")[-1], op), ok, b, bb,
              "KEEP_ALIVE can become set only via flags.set(KEEP_ALIVE, payload.is_none() && codec.keep_alive())")
    # FINISHED && !KEEP_ALIVE -> SHUTDOWN requires payload.is_none()
    n_t = 0
    for bb, op, fl, t in flag_ops(poll):
        if op == "insert" and "SHUTDOWN" in fl and guarded_by(poll, bb, flag_edge("FINISHED", True))[0]:
            n_t += 1
            g = any(strip_not(c)[0][0] == "call" and rx(r"Option::is_none$").search(strip_not(c)[0][1] or "") and e_has_field(c, PAY) and (lab is strip_not(c)[1]) for c, lab, a in poll.guards(bb))
            g2 = guarded_by(poll, bb, flag_edge("KEEP_ALIVE", False))[0]
            ck.ob("C03-c.finished-shutdown-needs-body-done", "Dispatcher::poll", g and g2, poll, bb, "FINISHED -> SHUTDOWN only with !KEEP_ALIVE (%s) and payload.is_none() (%s)" % (g2, g))
    ck.anchor("C03-c", n_t, 1, "FINISHED -> SHUTDOWN transition in Dispatcher::poll")
    # FINISHED is the only memory of "a response cycle completed, close/keep-alive decision outstanding":
    # it may be dropped only (i) together with the decision (-> SHUTDOWN) or (ii) by a socket read
    # that is not the drain of a payload the handler dropped (the decision is deferred to the end of the drain)
    n_f = 0
    for b in prog.in_file("actix-http/src/h1/dispatcher.rs"):
        for bb, op, fl, t in flag_ops(b):
            if op == "remove" and "FINISHED" in fl:
                n_f += 1
                decided = any(op2 == "insert" and "SHUTDOWN" in fl2 and b.dominates(bb, bb2) for bb2, op2, fl2, t2 in flag_ops(b))
                not_draining = any(
                    strip_not(c)[0][0] == "call" and rx(r"Option::is_some_and$").search(strip_not(c)[0][1] or "") and e_has_field(c, PAY)
                    and ((lab if strip_not(c)[1] else not lab) is False)
                    for c, lab, a in b.guards(bb) if isinstance(lab, bool))
                ck.ob("C03-c.finished-kept-while-draining", b.npath.split("::")[-1], decided or not_draining, b, bb,
                      "FINISHED is cleared only with the close decision (SHUTDOWN: %s) or by a read that is not draining a dropped payload (%s)" % (decided, not_draining))
    ck.anchor("C03-c", n_f, 2, "remove(FINISHED) sites")
    sc = prog.one(r"^actix_http::h1::dispatcher::should_close_for_unread_payload$")
    # structure: result may be true only under payload.is_some(); equals !drain; drain non-false only under is_dropped with value payload_drainable
    ok1 = ok2 = ok3 = True
    n_r = 0
    DR = set()  # the bool local whose negation is the result ("drain instead of close")
    for d in sc.defs().get(0, []):
        e = sc.def_expr(d, 6)
        if e[:3] == ("const", None, 0):
            continue
        n_r += 1
        ok1 = ok1 and any(c[0] == "call" and rx(r"Option::is_some$").search(c[1] or "") and lab is True for c, lab, a in sc.guards(d[1]))
        neg = e[0] == "un" and e[1] == "Not" and e[2][0] in ("var", "phi") and sc.lty(e[2][1]) == "bool"
        ok2 = ok2 and neg
        if neg:
            DR.add(e[2][1])
    dl = sorted(DR)
    boolp = set(args_of_type(sc, r"^bool$"))
    for l in dl:
        for d in sc.defs().get(l, []):
            e = sc.def_expr(d, 6)
            if e[:3] == ("const", None, 0):
                continue
            g = any(c[0] == "call" and rx(r"Option::is_some_and$").search(c[1] or "") and lab is True for c, lab, a in sc.guards(d[1]))
            ok3 = ok3 and g and e[0] == "arg" and e[1] in boolp
    clo = [c for c in prog.with_closures(sc) if c is not sc]
    ok4 = any(True for c in clo for _ in c.calls(r"PayloadSender::is_dropped$"))
    ck.ob("C03-c.should-close-structure", "should_close_for_unread_payload", n_r >= 1 and ok1 and ok2 and ok3 and ok4 and bool(dl), sc, None,
          "true only with an unfinished payload (%s), equal to !drain (%s), drain only when the handler dropped the payload (%s,%s) and it is drainable" % (ok1, ok2, ok3, ok4))

    # the close decision for an unread request payload is taken while the response body is still alive: ending the
    # state drops the body, and a body that owns the request payload then looks "dropped by the handler" (drainable)
    eob = [bb for bb, t in presp.calls(r"Codec as tokio_util::codec::encoder::Encoder<.*>>::encode$") if any(is_agg(x, r"Message::Chunk$") and any(is_agg(y, r"Option::None$") for y in walk(x)) for x in walk(presp.op_expr(t["args"][1], 4)))]
    scs = [bb for bb, t in presp.calls(r"should_close_for_unread_payload$")]
    ends = [bb for bb, t in presp.calls(r"Pin.*::set$") if e_has_field(presp.op_expr(t["args"][0]), DF + "state$") and is_agg(presp.op_expr(t["args"][1], 3), r"State::None$")]
    ck.anchor("C03-c", len(eob), 2, "end-of-body encode(Message::Chunk(None)) sites in poll_response")
    for e_ in eob:
        mine = [y for y in ends if presp.dominates(e_, y)]
        ok = bool(mine) and all(any(presp.dominates(e_, x) and presp.dominates(x, y) for x in scs) for y in mine)
        ck.ob("C03-c.close-decision-before-state-drop", "poll_response|%s" % ("SendPayload" if e_ == min(eob) else "SendErrorPayload"), ok, presp, (mine or [e_])[0],
              "at the end of a response body should_close_for_unread_payload(..) is evaluated before state.set(State::None) drops the body (a body owning the request payload must not turn an undrained payload into a 'dropped, drainable' one)")
    # the server codec installs a body decoder for every request that has a body, whatever else it remembers about it
    cdec = prog.one(r"^<actix_http::h1::codec::Codec as tokio_util::codec::decoder::Decoder>::decode$")
    pws = [(bb, cdec.rv_expr(s_["rv"], 4)) for bb, i, s_ in cdec.assigns() if any(isinstance(x, str) and x.endswith("codec::Codec.payload") for x in s_["p"][1:])]
    ck.anchor("C03-c", len(pws), 2, "writes of Codec.payload in Codec::decode")
    rets_item = [bb for bb, e in cdec.ret_exprs() if agg_chain(e)[0][:2] == ["core::result::Result::Ok", "core::option::Option::Some"]]
    for variant in ("Payload", "Stream"):
        edges = edges_where(cdec, lambda c, lab: c[0] == "discr" and (c[2] or "").endswith("PayloadType") and lab == variant)
        somes = [bb for bb, e in pws if is_agg(e, r"Option::Some$")]
        nones = [bb for bb, e in pws if is_agg(e, r"Option::None$")]
        ok = bool(edges)
        for a, tb in edges:
            r_ = cdec.reach([tb])
            ok = ok and cdec.must_pass([tb], rets_item, somes)[0] and not (set(nones) & r_)
        ck.ob("C03-c.body-decoder-installed", variant, ok, cdec, (somes or [None])[0],
              "for a request whose framing is PayloadType::%s every path to the returned head installs the body decoder (payload = Some(..)) and none clears it: otherwise the body bytes are parsed as the next request" % variant)

    # ---- (d) an error response always closes the read side ---------------------
    pushes = []
    for (b, bb, t, m) in method_calls_on_field(prog, DF + "messages$", ["actix_http"]):
        if m == "push_back" and any(is_agg(x, r"DispatcherMessage::Error$") for x in walk(b.op_expr(t["args"][1]))):
            pushes.append((b, bb))
    ck.anchor("C03-d", len(pushes), 2, "messages.push_back(DispatcherMessage::Error(_))")
    decs = [bb for bb, t in preq.calls(r"^<actix_http::h1::codec::Codec as tokio_util::codec::decoder::Decoder>::decode$")]
    for i, (b, bb) in enumerate(pushes):
        rd = [x for x, op, fl, t in flag_ops(b) if op == "insert" and "READ_DISCONNECT" in fl]
        before = any(b.dominates(x, bb) for x in rd)
        after, wit = b.must_pass_after(bb, b.returns(), rd)
        arm = [lab_s(lab) for c, lab, a in b.guards(bb) if c[0] == "discr" and isinstance(lab, str)][:2]
        key = "%s|%s" % (b.npath.split("::")[-1], "/".join(arm) or str(i))
        ck.ob("C03-d.error-response-closes-read", key, before or after, b, bb, "an error response is queued only together with READ_DISCONNECT (no further input is read or parsed)", witness=b.path_lines(wit) if not (before or after) else None)
        nomore = not (set(decs) & b.reach(b.succ[bb])) if b is preq else True
        ck.ob("C03-d.error-response-ends-decoding", key, nomore, b, bb, "after queuing an error response the decode loop is left: no path leads back to Codec::decode")
    # READ_DISCONNECT blocks both reading and decoding
    cr = disp(prog, "can_read")
    f_rets = [d for d in cr.defs().get(0, []) if cr.def_expr(d, 3)[:3] == ("const", None, 0)]
    ok = any(guarded_by(cr, d[1], flag_edge("READ_DISCONNECT", True))[0] for d in f_rets)
    t_rets = [d for d in cr.defs().get(0, []) if cr.def_expr(d, 3)[:3] != ("const", None, 0)]
    ok = ok and all(guarded_by(cr, d[1], flag_edge("READ_DISCONNECT", False))[0] for d in t_rets)
    ck.ob("C03-d.read-disconnect-blocks-decode", "can_read", ok, cr, None, "can_read() is false under READ_DISCONNECT and can be true only when it is clear")
    ra = disp(prog, "read_available")
    for bb, t in ra.calls(r"poll_read_buf$"):
        ck.ob("C03-d.read-disconnect-blocks-read", "read_available", guarded_by(ra, bb, flag_edge("READ_DISCONNECT", False))[0], ra, bb, "the socket is read only with READ_DISCONNECT clear")

    # ---- (e) linger discards and never decodes ----------------------------------
    ling_true = edges_where(poll, flag_edge("LINGER", True))
    ck.anchor("C03-e", len(ling_true), 1, "contains(LINGER) true edge in Dispatcher::poll")
    decoders = prog.blocks_reaching(poll, r"Codec as tokio_util::codec::decoder::Decoder>::decode$", 3)
    # the first LINGER test (the one that dominates the normal branch)
    first = [(a, tb) for a, tb in ling_true if any(is_call(poll.term(x), r"InnerDispatcher::poll_linger$") for x in poll.reach([tb]))]
    for a, tb in first:
        reach = poll.reach([tb])
        # recursion `self.poll(cx)` aside, the linger branch must not reach a decoding call
        bad = sorted(reach & decoders)
        ck.ob("C03-e.linger-never-decodes", "Dispatcher::poll", not bad, poll, bad[0] if bad else tb, "from the LINGER branch no call that can reach Codec::decode is reachable")
    pl = disp(prog, "poll_linger")
    ck.ob("C03-e.linger-never-decodes", "poll_linger", not prog.fn_reaches(pl, r"Codec as tokio_util::codec::decoder::Decoder>::decode$", 3), pl, None, "poll_linger (and its callees) never decode")
    clr = [bb for (bd, bb, t, m) in method_calls_on_field(prog, DF + "read_buf$", bodies=[pl]) if m == "clear"]
    ras = [bb for bb, t in pl.calls(r"InnerDispatcher::read_available$")]
    ok = bool(clr) and bool(ras)
    if ok:
        # from each read back to the next read (loop) the buffer was either empty or cleared
        ne = edges_where(pl, lambda c, lab: isinstance(lab, bool) and strip_not(c)[0][0] == "call" and rx(r"BytesMut::is_empty$").search(strip_not(c)[0][1] or "") is not None and ((lab if strip_not(c)[1] else not lab) is False))
        ok = all(pl.dominates(a, c) for a, tb in ne for c in clr if tb == c or pl.dominates(tb, c)) and bool(ne)
        again = pl.reach(pl.succ[ras[0]], removed=set(clr), removed_edges=set())
        # a path back to read_available that avoids clear must go through the `is_empty` true edge
        emp = edges_where(pl, lambda c, lab: isinstance(lab, bool) and strip_not(c)[0][0] == "call" and rx(r"BytesMut::is_empty$").search(strip_not(c)[0][1] or "") is not None and ((lab if strip_not(c)[1] else not lab) is True))
        again2 = pl.reach(pl.succ[ras[0]], removed=set(clr), removed_edges=emp)
        ok = ok and ras[0] not in again2
    ck.ob("C03-e.linger-discards", "poll_linger", ok, pl, clr[0] if clr else None, "bytes read while lingering are cleared before the next read (they are never kept for parsing)")
