"""C13 — content coding: pass-through table, termination, labelling (structure only)."""
from ..rules import *  # noqa

EXPLANATION = (
    "Losslessness of gzip/deflate/br/zstd and the q-value arithmetic of negotiation are properties of external codecs "
    "and of runtime values: NOT decided. Decided structurally over actix_http::encoding::{encoder,decoder} and the "
    "Compress middleware: (a) pass-through table — assuming the response already has Content-Encoding, or its status is "
    "101 / 204 / 206, or the negotiated coding is Identity, the site that selects an encoder and rewrites the head is "
    "unreachable in Encoder::response; empty and absent bodies return before wrapping; (b) termination — in "
    "Encoder::poll_next a finished blocking task is consumed before the inner body is polled again, `eof` is tested "
    "first, on the inner body's end every path that returns a (trailer) chunk with an encoder present passes "
    "ContentEncoder::finish and sets eof (so the ended inner body is never polled again), and the symmetric rules hold "
    "for the request Decoder (eof set, feed_eof called); (c) labelling — the encoder is selected from, and "
    "Content-Encoding is written from, the same `encoding` value; update_head also appends Vary and re-enables chunking "
    "(a stale user length cannot be framed on h1), and the wrapped body reports BodySize::Stream whenever an encoder is "
    "present; the middleware answers 406 when negotiation fails, falls back to identity without Accept-Encoding, and "
    "hands the negotiated value to Encoder::response. On h2 a user-set Content-Length header is skipped because the "
    "size is Stream (C08-d)."
)
RULES = "assumption-conditioned reachability (pass-through table), must-pass-through (finish/eof), provenance of the coding label, callee effect checks."

ENC = "actix_http::encoding::encoder::Encoder"


def run(ck, prog, tier, load):
    resp = prog.one(r"^actix_http::encoding::encoder::Encoder::response$")
    sel = [bb for bb, t in resp.calls(r"encoder::ContentEncoder::select$")]
    uh = [bb for bb, t in resp.calls(r"encoding::encoder::update_head$")]
    ck.anchor("C13-a", len(sel), 1, "ContentEncoder::select in Encoder::response")
    ck.anchor("C13-a", len(uh), 1, "update_head in Encoder::response")

    def eq_call(c, const_pat):
        c2, tr = strip_not(c, True)
        if c2[0] == "call" and rx(r"PartialEq.*::eq$|::eq$").search(c2[1] or "") and (e_has_const(c2, const_pat) or any(is_agg(x, const_pat) for x in walk(c2))):
            return c2, tr
        return None

    def assume_true(match_fn):
        """impossible edges under the assumption that the matched boolean atom is TRUE"""
        def p(c, lab):
            if not isinstance(lab, bool):
                return False
            m = match_fn(c)
            if not m:
                return False
            c2, tr = m
            return (lab if tr else not lab) is False
        return p

    cases = {
        "Content-Encoding already set": lambda c: (lambda c2_tr: c2_tr if c2_tr[0][0] == "call" and rx(r"HeaderMap::contains_key$").search(c2_tr[0][1] or "") and e_has_const(c2_tr[0], r"CONTENT_ENCODING$") else None)(strip_not(c, True)),
        "101 Switching Protocols": lambda c: eq_call(c, r"StatusCode::SWITCHING_PROTOCOLS$"),
        "204 No Content": lambda c: eq_call(c, r"StatusCode::NO_CONTENT$"),
        "206 Partial Content": lambda c: eq_call(c, r"StatusCode::PARTIAL_CONTENT$"),
        "identity coding": lambda c: eq_call(c, r"ContentEncoding::Identity$"),
    }
    for name, mf in cases.items():
        pred = assume_true(mf)
        present = bool(edges_where(resp, pred)) or any(mf(resp.def_expr(d, 5)) for l_, ds in resp.defs().items() if not isinstance(l_, tuple) for d in ds)
        r, _ = reach_under(resp, [pred])
        bad = [bb for bb in sel + uh if bb in r]
        ck.ob("C13-a.pass-through", name, present and not bad, resp, bad[0] if bad else None, "assuming `%s`, neither ContentEncoder::select nor update_head is reachable (the body passes through unchanged)" % name)
    # None / Sized(0) return before wrapping
    early = [bb for bb, t in resp.calls(r"Encoder.*::(none|empty)$")]
    ok = len(early) >= 2 and all(any(c[0] == "discr" and (c[2] or "").endswith("BodySize") for c, lab, a in resp.guards(bb)) or any(c[0] == "place" for c, lab, a in resp.guards(bb)) for bb in early) and all(not any(resp.dominates(bb, s_) for s_ in sel) for bb in early)
    ck.ob("C13-a.empty-bodies-unwrapped", "Encoder::response", ok, resp, early[0] if early else None, "BodySize::None and Sized(0) return a pass-through encoder before any coding is selected")

    # ---- (c) labelling --------------------------------------------------------------------
    for bb in sel:
        a = resp.op_expr(resp.term(bb)["args"][0])
        ok1 = root_is(a, args_of_type(resp, r"ContentEncoding$")) and not e_bins(a)
        ok2 = all(root_is(resp.op_expr(resp.term(u)["args"][0]), args_of_type(resp, r"ContentEncoding$")) for u in uh)
        ck.ob("C13-c.same-coding-labelled", "Encoder::response", ok1 and ok2 and bool(uh), resp, bb, "the encoder is selected from, and the head is updated with, the same `encoding` argument")
        ok3 = all(any(c[0] == "discr" and e_calls(c, r"ContentEncoder::select$") and lab == "Some" for c, lab, a_ in resp.guards(u)) for u in uh)
        ck.ob("C13-c.label-only-with-encoder", "Encoder::response", ok3 and bool(uh), resp, uh[0] if uh else None, "Content-Encoding is written only when an encoder was actually selected")
    up = prog.one(r"^actix_http::encoding::encoder::update_head$")
    ins = [(bb, t) for bb, t in up.calls(r"HeaderMap::insert$") if e_has_const(up.op_expr(t["args"][1]), r"CONTENT_ENCODING$")]
    ok = bool(ins) and all(e_calls(up.op_expr(t["args"][2]), r"ContentEncoding::to_header_value$") and root_is(up.op_expr(t["args"][2]), args_of_type(up, r"ContentEncoding$")) for bb, t in ins)
    ck.ob("C13-c.content-encoding-from-arg", "update_head", ok, up, ins[0][0] if ins else None, "update_head inserts Content-Encoding = encoding.to_header_value()")
    vary = [bb for bb, t in up.calls(r"HeaderMap::append$") if e_has_const(up.op_expr(t["args"][1]), r"VARY$")]
    ck.ob("C13-c.vary", "update_head", bool(vary) and up.must_pass([0], up.returns(), vary)[0], up, vary[0] if vary else None, "Vary: accept-encoding is appended on every path")
    nc = [(bb, t) for bb, t in up.calls(r"ResponseHead::no_chunking$")]
    ok = bool(nc) and all(up.op_expr(t["args"][1])[:3] == ("const", None, 0) for bb, t in nc) and up.must_pass([0], up.returns(), [bb for bb, t in nc])[0]
    ck.ob("C13-c.length-not-stale", "update_head", ok, up, nc[0][0] if nc else None, "update_head re-enables chunked framing (no_chunking(false)) on every path: a length the handler announced for the uncoded body is not sent with the coded one")
    # a length header the handler set for the uncoded body (HttpResponseBuilder::no_chunking(len), insert_header)
    # is dropped by the h1 writer only because chunked framing is re-enabled; the h2 writer copies a
    # user Content-Length whenever the size is Stream. So whoever installs the encoder must remove it.
    def removes_cl(b):
        sites = [bb for bb, t in b.calls(r"HeaderMap::remove$") if any(e_has_const(b.op_expr(a_), r"CONTENT_LENGTH$") for a_ in t["args"][1:])]
        return sites
    rm = removes_cl(up)
    ok = bool(rm) and up.must_pass([0], up.returns(), rm)[0]
    where = "update_head"
    if not ok:
        # accepted alternatives: Encoder::response itself does it before update_head, or every caller does
        rm2 = removes_cl(resp)
        if rm2 and all(any(resp.dominates(r_, u) for r_ in rm2) for u in uh):
            ok, where = True, "Encoder::response"
        else:
            callers = [b for b, bb, t in prog.callers(r"^actix_http::encoding::encoder::Encoder<B>::response$") if "test" not in b.npath]
            if callers and all(removes_cl(b) or any(removes_cl(c_) for c_ in prog.with_closures(b)) for b in callers):
                ok, where = True, "every caller of Encoder::response"
    ck.ob("C13-c.user-length-removed", "update_head", ok, up, rm[0] if rm else None,
          "whenever an encoder is installed, a Content-Length header set by the handler for the uncoded body is removed (%s); the h2 response writer copies a user Content-Length for a Stream body, so nothing else drops it" % (where if ok else "found in neither update_head, Encoder::response nor all its callers"))
    sz = prog.one(r"^<actix_http::encoding::encoder::Encoder<B> as actix_http::body::message_body::MessageBody>::size$")
    st = [bb for bb, e in sz.ret_exprs() if is_agg(e, r"BodySize::Stream$")]
    ok = bool(st) and all(any(strip_not(c)[0][0] == "call" and rx(r"Option.*::is_some$").search(strip_not(c)[0][1] or "") and e_has_field(c, r"Encoder\.encoder$") and (l if strip_not(c)[1] else not l) is True for c, l, a in sz.guards(bb) if isinstance(l, bool)) for bb in st)
    others = [bb for bb, e in sz.ret_exprs() if not is_agg(e, r"BodySize::Stream$")]
    ok = ok and all(any(strip_not(c)[0][0] == "call" and rx(r"is_some$").search(strip_not(c)[0][1] or "") and (l if strip_not(c)[1] else not l) is False for c, l, a in sz.guards(bb) if isinstance(l, bool)) for bb in others)
    ck.ob("C13-c.size-stream-when-coded", "Encoder::size", ok, sz, st[0] if st else None, "with an encoder present the body reports BodySize::Stream (so no stale Content-Length is generated); the inner size only without one")

    # ---- (b) termination of the encoder stream ------------------------------------------------
    pn = prog.one(r"^<actix_http::encoding::encoder::Encoder<B> as actix_http::body::message_body::MessageBody>::poll_next$")
    body_polls = [bb for bb, t in pn.calls(r"EncoderBody<B> as actix_http::body::message_body::MessageBody>::poll_next$|MessageBody.*::poll_next$")]
    ck.anchor("C13-b", len(body_polls), 1, "inner body poll in Encoder::poll_next")
    EOF_F = r"\.actix_http::encoding::encoder::(Encoder|__EncoderProjection|_::Projection)\.eof$"

    def eof_false(c, lab):
        c2, tr = strip_not(c, True)
        return isinstance(lab, bool) and c2[0] == "place" and any(isinstance(p, str) and p.endswith(".eof") for p in c2[2]) and (lab if tr else not lab) is False

    for bb in body_polls:
        ck.ob("C13-b.eof-tested-first", "Encoder::poll_next", guarded_by(pn, bb, eof_false)[0], pn, bb, "the inner body is polled only across `eof == false`")
        # a pending blocking task is polled before the body
        futp = [x for x, t in pn.calls(r"JoinHandle.*Future>::poll$|Future>::poll$")]
        taken = [x for x, t in pn.calls(r"Option.*::take$") if e_has_field(pn.op_expr(t["args"][0]), r"\.fut$")]
        fut_none = edges_where(pn, lambda c, lab: c[0] == "discr" and any(isinstance(p, str) and p.endswith(".fut") for y in walk(c) if y[0] == "place" for p in y[2]) and lab == "None")
        r = pn.reach([0], removed=set(taken), removed_edges=fut_none | pn.dead_edges())
        ck.ob("C13-b.blocking-task-first", "Encoder::poll_next", bool(futp) and bool(taken) and bb not in r, pn, bb, "with a blocking encode task in flight the inner body is polled only after that task completed and was taken")
    none_edges = []
    for a in pn.live:
        br = pn.branch(a)
        if br and br[0][2] == "core::option::Option" and discr_of_call(br[0], r"poll_next$"):
            none_edges += [tb for lab, tb in br[1] if lab == "None"]
    ck.anchor("C13-b", len(none_edges), 1, "None edge of the inner body in Encoder::poll_next")
    fin = [bb for bb, t in pn.calls(r"ContentEncoder::finish$")]
    eofw = [bb for bb, i, s in pn.assigns() if any(isinstance(x, str) and x.endswith(".eof") for x in s["p"][1:]) and pn.rv_expr(s["rv"], 3)[:3] == ("const", None, 1)]
    some_rets = [bb for bb, e in pn.ret_exprs() if agg_chain(e)[0][:2] == ["core::task::poll::Poll::Ready", "core::option::Option::Some"]]
    for tb in none_edges:
        reach = pn.reach([tb])
        chunk_rets = [x for x in some_rets if x in reach and pn.dominates(tb, x)]
        ok1 = bool(fin) and all(any(pn.dominates(f, x) for f in fin) for x in chunk_rets) and bool(chunk_rets)
        ok2 = bool(eofw) and all(any(pn.dominates(w, x) for w in eofw) for x in chunk_rets)
        ck.ob("C13-b.trailer-from-finish", "Encoder::poll_next", ok1, pn, tb, "on the inner body's end the only chunk that can still be returned comes after ContentEncoder::finish")
        ck.ob("C13-b.ended-body-not-repolled", "Encoder::poll_next", ok2, pn, tb, "returning that trailer chunk sets eof = true first, so the ended inner body is never polled again")
        enc_some = edges_where(pn, lambda c, lab: c[0] == "discr" and e_calls(c, r"Option.*::take$") and lab == "Some")
        ck.ob("C13-b.finish-on-every-coded-end", "Encoder::poll_next", bool(fin) and any(pn.dominates(tb, f) for f in fin), pn, tb, "the encoder is finished on the end-of-body edge")
    # decoder side
    dn = prog.one(r"^<actix_http::encoding::decoder::Decoder<S> as futures_core::stream::Stream>::poll_next$")
    none_d = []
    for a in dn.live:
        br = dn.branch(a)
        if br and br[0][2] == "core::option::Option" and discr_of_call(br[0], r"Stream.*::poll_next$"):
            none_d += [tb for lab, tb in br[1] if lab == "None"]
    ck.anchor("C13-d", len(none_d), 1, "None edge of the source stream in Decoder::poll_next")
    eofd = [bb for bb, i, s in dn.assigns() if any(isinstance(x, str) and x.endswith(".eof") for x in s["p"][1:]) and dn.rv_expr(s["rv"], 3)[:3] == ("const", None, 1)]
    fe = [bb for bb, t in dn.calls(r"ContentDecoder::feed_eof$")]
    for tb in none_d:
        ok = bool(eofd) and dn.must_pass([tb], dn.returns(), eofd)[0]
        ck.ob("C13-d.decoder-eof-set", "Decoder::poll_next", ok, dn, tb, "the end of the coded request body sets eof on every path (the source is not polled again)")
        ck.ob("C13-d.decoder-flushes", "Decoder::poll_next", bool(fe) and any(dn.dominates(tb, f) for f in fe), dn, tb, "... and the decoder is flushed with feed_eof")
    # the codec state taken out of its slot for a data chunk goes back (or into the blocking task) before the stream goes on:
    # a decoder that is dropped on some path turns the rest of the coded body into pass-through bytes
    src_polls = [bb for bb, t in dn.calls(r"Stream.*::poll_next$")]
    takes = [bb for bb, t in dn.calls(r"Option.*::take$") if e_has_field(dn.op_expr(t["args"][0]), r"\.decoder$") and not any(dn.dominates(tb, bb) for tb in none_d)]
    ck.anchor("C13-d", len(takes), 1, "decoder.take() on the data path of Decoder::poll_next")
    put_back = [bb for bb, i, s_ in dn.assigns() if any(isinstance(x, str) and (x.endswith(".decoder") or x.endswith(".fut")) for x in s_["p"][1:]) and is_agg(dn.rv_expr(s_["rv"], 3), r"Option::Some$")]
    for tk in takes:
        some_edges = [tb for a in dn.live for br in [dn.branch(a)] if br and br[0][0] == "discr" and isinstance(br[0][1], tuple) and br[0][1][0] == "call" and br[0][1][3] == tk for lab, tb in br[1] if lab == "Some"]
        ends = set(src_polls) | set(bb for bb, e in dn.ret_exprs() if agg_chain(e)[0][:3] == ["core::task::poll::Poll::Ready", "core::option::Option::Some", "core::result::Result::Ok"])
        ok = bool(some_edges) and bool(put_back) and dn.must_pass(some_edges, ends, put_back)[0]
        ck.ob("C13-d.decoder-restored", "Decoder::poll_next", ok, dn, tk, "from `decoder.take()` every path that delivers data or polls the source again first stores the decoder back (or hands it to the blocking task)")

    # ---- middleware ---------------------------------------------------------------------------------
    mc = prog.one(r"^<actix_web::middleware::compress::CompressMiddleware<S> as actix_service::Service<actix_web::service::ServiceRequest>>::call$")
    neg = [bb for bb, t in mc.calls(r"AcceptEncoding::negotiate$")]
    ck.anchor("C13-c", len(neg), 1, "AcceptEncoding::negotiate in CompressMiddleware::call")
    na = [bb for bb, t in mc.calls(r"HttpResponse.*::with_body$") if e_has_const(mc.op_expr(t["args"][0]), r"StatusCode::NOT_ACCEPTABLE$")]
    ok = bool(na) and any(c[0] == "discr" and e_calls(c, r"AcceptEncoding::negotiate$") and lab == "None" for c, lab, a in mc.guards(na[0]))
    ck.ob("C13-c.not-acceptable", "CompressMiddleware::call", ok, mc, na[0] if na else None, "when no supported coding is acceptable the middleware answers 406")
    idn = [bb for bb, t in mc.calls(r"Encoding::identity$")]
    ok = bool(idn) and any(c[0] == "discr" and e_calls(c, r"get_header$") and lab == "None" for c, lab, a in mc.guards(idn[0]))
    ck.ob("C13-c.identity-fallback", "CompressMiddleware::call", ok, mc, idn[0] if idn else None, "without an Accept-Encoding header the response is left uncoded (identity)")
    # what the middleware hands on as "the negotiated coding" is the negotiation's own answer (or identity when the request
    # carries no Accept-Encoding): the server's list of supported codings is an input of the negotiation, never a source
    n_cr = 0
    for bb, i, s_ in mc.assigns():
        rv = s_["rv"]
        if rv["k"] != "agg" or not (rv.get("adt") or "").endswith("compress::CompressResponse") or "encoding" not in rv.get("fields", []):
            continue
        n_cr += 1
        e = mc.op_expr(rv["ops"][rv["fields"].index("encoding")], 8)
        top = e[1] if e[0] == "place" else e
        from_neg = top[0] == "call" and rx(r"AcceptEncoding::negotiate$").search(top[1] or "") is not None
        ident = bool(e_calls(e, r"Encoding::identity$")) and not e_calls(e, r"AcceptEncoding::negotiate$") and any(c[0] == "discr" and e_calls(c, r"get_header$") and lab == "None" for c, lab, a in mc.guards(bb))
        ck.ob("C13-c.middleware-uses-negotiated-coding", "CompressMiddleware::call|#%d" % n_cr, from_neg or ident, mc, bb, "CompressResponse.encoding is the value negotiate() returned (or identity without an Accept-Encoding header): %s" % short(e, 4))
    ck.anchor("C13-c", n_cr, 2, "CompressResponse constructions in CompressMiddleware::call")
    cr = [b for b in prog.find(r"^<actix_web::middleware::compress::CompressResponse<S, B> as core::future::future::Future>::poll")]
    er = [(b, bb, t) for b in cr for c in prog.with_closures(b) for bb, t in c.calls(r"encoder::Encoder.*::response$") for b in [c]]
    ok = bool(er) and all(any(r_[0] in ("var", "phi", "arg") for r_ in e_roots(b.op_expr(t["args"][0]))) or any(isinstance(p, str) and p.startswith(".^") for x in walk(b.op_expr(t["args"][0])) if x[0] == "place" for p in x[2]) for b, bb, t in er)
    ck.ob("C13-c.negotiated-value-used", "CompressResponse::poll", ok, er[0][0] if er else None, er[0][1] if er else None, "Encoder::response receives the negotiated coding (or Identity when the content type is excluded)")
    negotiation_rules(ck, prog)

    # ---- (a) the whole chunk goes into the codec: write_all, never the partial io::Write::write whose count is dropped ----
    n_all = 0
    for b in sorted(prog.bodies.values(), key=lambda x: (x.file, x.lo, x.path)):
        if b.crate != "actix_http" or not rx(r"encoding::(encoder::ContentEncoder|decoder::ContentDecoder)::(write|feed_data)$").search(b.npath):
            continue
        for bb, t in b.calls(r"io::Write>::write(_all)?$|io::Write::write(_all)?$|io::Write for .*>::write(_all)?$"):
            whole = cname(t).endswith("write_all")
            n_all += whole
            if not whole and _count_used(b, t):
                continue  # a partial write whose accepted count is read (a retry loop) is a different, legitimate shape
            if not whole:
                ck.ob("C13-a.whole-chunk-into-codec", "%s|bb-write" % "::".join(b.npath.split("::")[-2:]), False, b, bb,
                      "a body chunk is handed to the (de)compressor with write(), which may accept only part of it, and the accepted count is not looked at: the rest of the chunk is lost")
    ck.ob("C13-a.whole-chunk-into-codec", "ContentEncoder::write / ContentDecoder::feed_data", n_all >= 1, None, None, "every codec arm hands the chunk over with write_all (%d sites)" % n_all)
    ck.anchor("C13-a", n_all, 2 if prog.overridden else 4, "write_all of the chunk into a codec (encoder and decoder arms)")


def negotiation_rules(ck, prog):
    """(e) structure of AcceptEncoding::negotiate: what is chosen comes from an item the client accepted"""
    ng = prog.one(r"^actix_web::http::header::accept_encoding::AcceptEncoding::negotiate$")
    clos = [c for c in prog.with_closures(ng) if c is not ng]
    # every returned value that can be Some: `Some(x)` aggregates, and Options computed by a call (x = the whole expression)
    somes = [(bb, e) for bb, e in ng.ret_exprs() if not is_agg(e, r"Option::None$")]
    ck.anchor("C13-e", len(somes), 2, "returns of AcceptEncoding::negotiate that can carry a coding")
    # closures that test `quality > ZERO`
    positive = [c for c in clos if any(e_calls(e, r"PartialOrd::gt$|PartialOrd>::gt$") and e_has_const(e, r"Quality::ZERO$|ZERO$") for bb, e in c.ret_exprs())]
    for bb, e in somes:
        val = (e[3][0] if e[3] else None) if is_agg(e, r"Option::Some$") else e
        if val is not None and e_calls(val, r"Encoding::identity$") and not e_calls(val, r"Iterator::find$"):
            ok = any((c[0] == "call" and rx(r"is_identity_acceptable$").search(c[1] or "") and lab is True) or (c[0] == "call" and rx(r"Vec.*::is_empty$").search(c[1] or "") and lab is True) for c, lab, a in ng.guards(bb))
            ck.ob("C13-e.identity-needs-acceptability", "negotiate|bb", ok, ng, bb, "identity is answered only when the header is empty or is_identity_acceptable(..) holds")
            continue
        finds = e_calls(val, r"Iterator::find$|Iterator::find_map$") if val is not None else []
        filt = e_calls(val, r"Iterator::filter$") if val is not None else []
        from_item = bool(finds) and any(isinstance(p_, str) and p_ == "@Specific" for x in walk(val) if x[0] == "place" for p_ in x[2])
        filtered = bool(filt) and bool(positive)
        ck.ob("C13-e.chosen-from-accepted-item", "negotiate", from_item and filtered, ng, bb,
              "a coding other than identity is answered only if it is the payload of an item found in the client's list after the `quality > 0` filter (never a coding picked from the server's own list): %s" % short(val, 4))
    ck.ob("C13-e.zero-quality-filtered", "negotiate", bool(positive), ng, None, "the candidate list is filtered by `quality > Quality::ZERO` (a coding listed with q=0 is refused)")
    # the specific `identity` item takes precedence over `*` wherever it stands in the list
    ia = prog.one(r"accept_encoding::is_identity_acceptable$")
    any_rets = [bb for bb, e in ia.ret_exprs() if any(c[0] == "discr" and lab == "Any" for c, lab, a in ia.guards(bb))]
    ia_clos = [c for c in prog.with_closures(ia) if c is not ia]
    ok = False
    why = "no consultation of `*` found"
    if any_rets:
        # explicit-loop form: the `*` arm sits in the same scan as the `identity` arm -> whichever comes first decides
        nexts = [bb for bb, t in ia.calls(r"Iterator>::next$")]
        in_same_scan = any(any(ia.dominates(n, r_) and n in ia.reach(ia.succ[r_]) or (ia.dominates(n, r_) and any(c[0] == "discr" and e_calls(c, r"Iterator>::next$") and lab == "Some" for c, lab, a in ia.guards(r_))) for n in nexts) for r_ in any_rets)
        ident_rets = [bb for bb, e in ia.ret_exprs() if any(c[0] == "discr" and lab == "Identity" for c, lab, a in ia.guards(bb))]
        same_loop = bool(ident_rets) and any(any(c[0] == "discr" and e_calls(c, r"Iterator>::next$") and lab == "Some" for c, lab, a in ia.guards(r_)) for r_ in any_rets) and \
            all(not any(c[0] == "discr" and e_calls(c, r"Iterator>::next$") and lab == "None" for c, lab, a in ia.guards(r_)) for r_ in any_rets)
        ok = not same_loop
        why = "`*` is consulted inside the same scan that looks for `identity`: the item with the higher quality decides" if same_loop else "`*` is consulted only after a completed scan for `identity`"
    else:
        # find-form: two searches, the one for identity first
        finds = [(bb, t) for bb, t in ia.calls(r"Iterator::find$|Iterator::position$|Iterator::any$")]
        def clo_matches(t, name):
            for c in ia_clos:
                if any(isinstance(lab, str) and lab == name for a in c.live for br in [c.branch(a)] if br for lab, tb in br[1]):
                    if any(x[0] == "agg" and norm(x[2] or "") == c.npath for arg in t["args"] for x in walk(ia.op_expr(arg, 3))):
                        return True
            return False
        f_id = [bb for bb, t in finds if clo_matches(t, "Identity")]
        f_any = [bb for bb, t in finds if clo_matches(t, "Any") and bb not in f_id]
        ok = bool(f_id) and bool(f_any) and all(any(ia.dominates(i_, a_) for i_ in f_id) and any(c[0] == "discr" and lab == "None" for c, lab, g in ia.guards(a_)) for a_ in f_any)
        why = "search for `identity` completes (None) before `*` is consulted" if ok else "could not establish that the search for `identity` precedes the consultation of `*`"
    ck.ob("C13-e.specific-identity-before-wildcard", "is_identity_acceptable", ok, ia, (any_rets or [None])[0],
          "`identity;q=0` refuses identity even when `*` is listed with a higher quality (RFC 7231 5.3.4: the more specific item wins): %s" % why)


def _count_used(b, t):
    """the Ok payload (number of bytes accepted) of this io::Write::write call is read somewhere in the body"""
    import json
    locs = {t["dest"][0]} if t.get("dest") else set()
    for bb, i, st in b.assigns():
        rv = st["rv"]
        if rv["k"] == "use" and isinstance(rv.get("op"), dict) and isinstance(rv["op"].get("p"), list) and rv["op"]["p"] and rv["op"]["p"][0] in locs and len(rv["op"]["p"]) == 1 and len(st["p"]) == 1:
            locs.add(st["p"][0])
    hit = []

    def walk_(x):
        if isinstance(x, list):
            if x and isinstance(x[0], int) and x[0] in locs and any(isinstance(y, str) and y.endswith("Result::Ok.0") for y in x[1:]):
                hit.append(x)
            for y in x:
                walk_(y)
        elif isinstance(x, dict):
            for y in x.values():
                walk_(y)
    walk_(b.d.get("blocks") if hasattr(b, "d") else [])
    return bool(hit)
