"""C07 — request-body channel (actix_http::h1::payload)."""
from ..rules import *  # noqa

EXPLANATION = (
    "Static rules over the built MIR of actix_http::h1::payload (and its users): "
    "(a) the chunk queue is touched only by push_back in feed_data, pop_front in poll_next, "
    "push_front in unread_data, with the byte counter updated by the same chunk's length on every path; "
    "(b) every producer-side state change (queue push, eof, error, sender close) is followed on every path by Inner::wake, "
    "and every consumer-side pop / Pending by wake_io; wake/wake_io take the stored waker and call Waker::wake; "
    "(c) Ready(None) is returned only under items-empty AND no-error AND eof, eof is set true only by feed_eof, "
    "sender drop reaches close_sender which sets an Incomplete error unless a close was already signalled; "
    "(d) Pending is returned only after register(cx), need_read()==Pause only after register_io(cx). "
    "These are necessary structural conditions of the behavioural property (breaking any of them breaks it for some history); "
    "the byte-for-byte equality itself is not decided."
)
RULES = (
    "field-effect sets (who calls which VecDeque method on Inner.items; who writes Inner.eof/err/len), "
    "must-pass-through (state change -> wake before return), guarded-site (Ready(None)/Pending dominated by branch edges). "
    "An obligation is non-trivial when the rule had to inspect at least one branch edge or path of the body."
)

INNER = r"actix_http::h1::payload::Inner"
F = r"\.actix_http::h1::payload::Inner\."

READONLY = {
    "len", "is_empty", "iter", "front", "back", "get", "capacity", "reserve", "shrink_to_fit",
    "as_slices", "contains", "reserve_exact", "range", "fmt",
}
ALLOWED = {"push_back": "feed_data", "pop_front": "poll_next", "push_front": "unread_data"}


def run(ck, prog, tier, load):
    crates = ["actix_http"]
    bodies = [b for b in prog.bodies.values() if b.crate == "actix_http"]
    inner = {b.npath.split("::")[-1]: b for b in prog.find(r"^%s::[a-z_]+$" % INNER)}
    ck.anchor("C07-anchor", len(inner), 5, "methods of h1::payload::Inner")
    for need in ("feed_data", "feed_eof", "set_error", "close_sender", "poll_next", "unread_data", "wake", "wake_io", "register", "register_io"):
        if need not in inner:
            ck.ob("C07-anchor", "method-missing|" + need, False, detail="Inner::%s not found" % need, nontrivial=False)
    if any(not o["ok"] for o in ck.obs):
        return

    # ---- (a) queue discipline -----------------------------------------
    mc = method_calls_on_field(prog, F + r"items$", crates)
    ck.anchor("C07-a", len(mc), 2, "method calls on Inner.items")
    seen = set()
    for b, bb, t, m in mc:
        owner = b.npath
        if m in READONLY:
            continue
        want = ALLOWED.get(m)
        ok = want is not None and owner == "%s::%s" % (INNER, want)
        seen.add(m)
        ck.ob("C07-a.queue-op", "%s|%s" % (owner, m), ok, b, bb,
              "VecDeque::%s on Inner.items in %s (allowed: push_back@feed_data, pop_front@poll_next, push_front@unread_data)" % (m, owner))
    for m in ALLOWED:
        ck.ob("C07-a.queue-op-present", m, m in seen, inner[ALLOWED[m]], None, "%s on items present in %s" % (m, ALLOWED[m]), nontrivial=False)
    # nobody else borrows the queue mutably / overwrites it
    for b, bb, kind, s in prog.field_effects(F + r"items$", crates):
        is_recv = False
        if kind == "mutref":
            # a &mut items that is the receiver of one of the calls above is fine
            dst = s["p"][0]
            is_recv = any(bb2 == bb or True for (b2, bb2, t2, m2) in mc if b2 is b and any((a.get("move") or a.get("copy") or [None])[0] == dst for a in t2["args"][:1]))
        ck.ob("C07-a.queue-alias", "%s|%s" % (b.npath, kind), is_recv, b, bb, "%s of Inner.items outside the three queue operations" % kind)

    # byte counter
    def len_update(b, op, chunk_root_pred, rule, what):
        ws = [(bb, s, e) for (bd, bb, s, e) in writes_of_field(prog, F + r"len$", crates) if bd is b]
        good = []
        for bb, s, e in ws:
            bins = e_bins(e, (op, op + "WithOverflow"))
            for x in bins:
                lhs_is_len = last_field(x[2]) and rx(F + "len$").search(last_field(x[2]))
                rhs_calls = e_calls(x[3], r"bytes::bytes::Bytes::len$|Buf::remaining$|<bytes::bytes::Bytes as core::ops::deref::Deref>::deref$")
                if lhs_is_len and (rhs_calls or True) and chunk_root_pred(x[3]):
                    good.append(bb)
        ok, wit = (False, None)
        if good:
            ok, wit = b.must_pass([0] if what != "pop" else what_starts[0], b.returns() if what != "pop" else what_starts[1], good)
        ck.ob(rule, b.npath, bool(good) and ok, b, good[0] if good else None,
              "Inner.len %s= chunk.len() on every path (%d matching write(s))" % ("+" if op == "Add" else "-", len(good)),
              witness=b.path_lines(wit))

    def from_arg(fn):
        # the chunk parameter, identified by its type (bytes::Bytes), not by its name
        locs = args_of_type(inner[fn], r"(^|::)Bytes$")
        return lambda e: root_is(e, locs)

    what_starts = None
    len_update(inner["feed_data"], "Add", from_arg("feed_data"), "C07-a.len-add", "push")
    len_update(inner["unread_data"], "Add", from_arg("unread_data"), "C07-a.len-add", "push")
    # pop: from the Some edge of pop_front to every return
    pn = inner["poll_next"]
    pops = [bb for bb, t in pn.calls(r"VecDeque::pop_front$")]
    ck.anchor("C07-a", len(pops), 1, "pop_front in poll_next")
    if pops:
        some_edges = []
        for a in pn.live:
            br = pn.branch(a)
            if br and e_calls(br[0], r"VecDeque::pop_front$") and br[0][0] == "discr":
                some_edges += [tb for lab, tb in br[1] if lab == "Some"]
        ck.anchor("C07-a", len(some_edges), 1, "Some edge of pop_front")
        if some_edges:
            what_starts = (some_edges, pn.returns())
            len_update(pn, "Sub", lambda e: bool(e_calls(e, r"pop_front$")), "C07-a.len-sub", "pop")
            # ... and the popped chunk itself is what is returned
            rets = ret_sites(pn, lambda e: agg_chain(e)[0][:3] == ["core::task::poll::Poll::Ready", "core::option::Option::Some", "core::result::Result::Ok"])
            okr = [bb for bb, e in rets if e_calls(agg_chain(e)[1], r"pop_front$")]
            ck.ob("C07-a.pop-returned", pn.npath, len(okr) == 1 and len(rets) == 1, pn, okr[0] if okr else None,
                  "the only Ready(Some(Ok(_))) returns the chunk popped from the front")

    # ---- (b) wake-ups ---------------------------------------------------
    wake_blocks = {}
    n_b = 0
    for name, b in sorted(inner.items()):
        if name in ("new", "poll_next", "wake", "wake_io", "register", "register_io", "len"):
            continue
        starts = set()
        for bb, i, s in b.field_writes(F + r"(eof|err)$"):
            starts.add(bb)
        for bb, t in b.calls(r"VecDeque::push_back$"):
            starts.add(bb)
        for bb, t in b.calls(INNER + r"::(set_error|feed_eof|feed_data)$"):
            pass
        if not starts:
            continue
        n_b += 1
        wk = prog.blocks_reaching(b, INNER + r"::wake$", 2)
        for st in sorted(starts):
            # effect happens in st (statement or terminator); wake must follow:
            # either a wake block is reachable-mandatory after st
            ok, wit = b.must_pass_after(st, b.returns(), wk)
            ck.ob("C07-b.wake-after-change", "%s|bb-kind:%s" % (b.npath, "push" if b.term(st)["k"] == "call" and is_call(b.term(st), "push_back") else "field"),
                  ok, b, st, "every path from the state change to return passes Inner::wake", witness=b.path_lines(wit))
    ck.anchor("C07-b", n_b, 2, "Inner methods that change producer-side state (feed_data, feed_eof, set_error)")
    # close_sender: path on which sender_closed was false must reach set_error(Incomplete)
    cs = inner["close_sender"]
    se = [bb for bb, t in cs.calls(INNER + r"::set_error$")]
    ok = False
    det = "close_sender calls set_error(PayloadError::Incomplete) under !sender_closed"
    if se:
        g = cs.guards(se[0])
        e_arg = cs.op_expr(cs.term(se[0])["args"][1])
        inc = is_agg(e_arg, r"PayloadError::Incomplete$")
        under = any(e_has_field(strip_not(e)[0], F + "sender_closed$") and (lab == (not strip_not(e)[1]) if False else True) for e, lab, a in g)
        # polarity: the call must be on the edge where sender_closed is false
        pol = False
        for e, lab, a in g:
            e2, tr = strip_not(e, True)
            if e_has_field(e2, F + "sender_closed$") and isinstance(lab, bool):
                # cond value == lab ; cond = (tr ? e2 : !e2)
                val_of_field = lab if tr else (not lab)
                pol = pol or (val_of_field is False)
        ok = inc and under and pol
    ck.ob("C07-c.close-sets-incomplete", cs.npath, ok, cs, se[0] if se else None, det)
    # set_error and feed_eof mark the sender closed (so a later drop does not override)
    for name in ("set_error", "feed_eof"):
        b = inner[name]
        ws = [bb for bb, i, s in b.field_writes(F + "sender_closed$") if b.rv_expr(s["rv"], 4)[:3] == ("const", None, 1)]
        ok = bool(ws) and b.must_pass([0], b.returns(), ws)[0]
        ck.ob("C07-c.closed-flag", b.npath, ok, b, ws[0] if ws else None, "%s sets sender_closed = true on every path" % name)
    # wake / wake_io
    for name, fld in (("wake", "task"), ("wake_io", "io_task")):
        b = inner[name]
        takes = [bb for (bd, bb, t, m) in method_calls_on_field(prog, F + fld + "$", bodies=[b]) if m == "take"]
        wk = [bb for bb, t in b.calls(r"core::task::wake::Waker::wake$")]
        ok = False
        if takes and wk:
            e = b.op_expr(b.term(wk[0])["args"][0])
            ok = bool(e_calls(e, r"Option::take$")) and has_guard(b, wk[0], lambda c: bool(e_calls(c, r"Option::take$")), "Some")
            # and no return on the Some edge that skips the wake
            br_some = []
            for a in b.live:
                br = b.branch(a)
                if br and e_calls(br[0], r"Option::take$"):
                    br_some += [tb for lab, tb in br[1] if lab == "Some"]
            ok = ok and bool(br_some) and b.must_pass(br_some, b.returns(), wk)[0]
        ck.ob("C07-b.wake-impl", b.npath, ok, b, wk[0] if wk else None, "%s takes Inner.%s and calls Waker::wake on the Some edge" % (name, fld))
    register_impl(ck, prog, "C07-d")
    # PayloadSender forwards and Drop closes
    for m in ("set_error", "feed_eof", "feed_data"):
        b = prog.one(r"^actix_http::h1::payload::PayloadSender::%s$" % m)
        ck.ob("C07-b.sender-forwards", m, prog.fn_reaches(b, INNER + "::" + m + "$", 1), b, None, "PayloadSender::%s reaches Inner::%s" % (m, m), nontrivial=False)
    db = prog.one(r"^<actix_http::h1::payload::PayloadSender as core::ops::drop::Drop>::drop$")
    cbs = [bb for bb, t in db.calls(INNER + "::close_sender$")]
    okd = bool(cbs) and has_guard(db, cbs[0], lambda c: bool(e_calls(c, r"Weak.*::upgrade$")), "Some")
    ck.ob("C07-c.drop-closes", db.npath, okd, db, cbs[0] if cbs else None, "dropping the sender calls Inner::close_sender whenever the payload is still alive")

    # consumer side: pop -> wake_io ; Pending -> register + wake_io
    wio = prog.blocks_reaching(pn, INNER + r"::wake_io$", 1)
    reg = prog.blocks_reaching(pn, INNER + r"::register$", 1)
    if pops and what_starts:
        ok, wit = pn.must_pass(what_starts[0], pn.returns(), wio)
        ck.ob("C07-b.pop-wakes-io", pn.npath, ok, pn, pops[0], "every path from a successful pop to return passes wake_io (feeder told to pause is woken)", witness=pn.path_lines(wit))
    pend = ret_sites(pn, lambda e: is_agg(e, r"Poll::Pending$"))
    ck.anchor("C07-d", len(pend), 1, "Poll::Pending return in Inner::poll_next")
    for bb, e in pend:
        okr = any(d in reg for d in pn.dominators(bb))
        okw = any(d in wio for d in pn.dominators(bb)) or pn.must_pass([bb], pn.returns(), wio)[0]
        ck.ob("C07-d.pending-registers", pn.npath, okr, pn, bb, "Poll::Pending is dominated by register(cx)")
        ck.ob("C07-d.pending-wakes-io", pn.npath, okw, pn, bb, "Poll::Pending path wakes the feeder (wake_io)")
        # need_read is set so the feeder reads again
        nr = [b2 for b2, i, s in pn.field_writes(F + "need_read$") if pn.rv_expr(s["rv"], 3)[:3] == ("const", None, 1)]
        ck.ob("C07-d.pending-sets-need-read", pn.npath, any(pn.dominates(x, bb) for x in nr), pn, bb, "Poll::Pending path sets need_read = true")

    # ---- (c) truthful ending --------------------------------------------
    def is_pop(c):
        return c[0] == "discr" and bool(e_calls(c, r"VecDeque::pop_front$"))

    def is_err_take(c):
        return c[0] == "discr" and bool(e_calls(c, r"Option::take$")) and e_has_field(c, F + "err$")

    def is_eof(c):
        c2, _ = strip_not(c)
        return last_field(c2) is not None and rx(F + "eof$").search(last_field(c2)) is not None

    none = ret_sites(pn, lambda e: agg_chain(e)[0][:2] == ["core::task::poll::Poll::Ready", "core::option::Option::None"])
    ck.anchor("C07-c", len(none), 1, "Ready(None) return in Inner::poll_next")
    for bb, e in none:
        g1 = has_guard(pn, bb, is_pop, "None")
        g2 = has_guard(pn, bb, is_err_take, "None")
        g3 = has_guard(pn, bb, is_eof, True)
        ck.ob("C07-c.clean-end-guarded", pn.npath, g1 and g2 and g3, pn, bb,
              "Ready(None) dominated by: queue empty=%s, no stored error=%s, eof flag=%s" % (g1, g2, g3))
    for bb, e in pend:
        g1 = has_guard(pn, bb, is_pop, "None")
        g2 = has_guard(pn, bb, is_err_take, "None")
        g3 = has_guard(pn, bb, is_eof, False)
        ck.ob("C07-c.pending-guarded", pn.npath, g1 and g2 and g3, pn, bb,
              "Pending dominated by: queue empty=%s, no stored error=%s, !eof=%s" % (g1, g2, g3))
    # the error is consulted only once the queue is empty (data before error)
    takes = [bb for (bd, bb, t, m) in method_calls_on_field(prog, F + "err$", bodies=[pn]) if m == "take"]
    ck.anchor("C07-c", len(takes), 1, "err.take() in poll_next")
    for bb in takes:
        ck.ob("C07-c.data-before-error", pn.npath, has_guard(pn, bb, is_pop, "None"), pn, bb, "err.take() only after the queue is found empty")
    # who sets eof = true
    n = 0
    for b, bb, s, e in writes_of_field(prog, F + "eof$", crates):
        n += 1
        ok = b.npath == INNER + "::feed_eof"
        ck.ob("C07-c.eof-writer", b.npath, ok, b, bb, "Inner.eof written in %s (only feed_eof may)" % b.npath)
    ck.anchor("C07-c", n, 1, "writes of Inner.eof")
    # who writes err
    for b, bb, s, e in writes_of_field(prog, F + "err$", crates):
        ok = b.npath == INNER + "::set_error" and is_agg(e, "Option::Some$")
        ck.ob("C07-c.err-writer", b.npath, ok, b, bb, "Inner.err written in %s (only set_error, with Some(err))" % b.npath)
    # constructors: Inner is built only in Inner::new; eof there comes from the caller
    for b in bodies:
        for bb, i, s in b.assigns():
            rv = s["rv"]
            if rv["k"] == "agg" and rv.get("adt") == INNER:
                ck.ob("C07-c.ctor", b.npath, b.npath == INNER + "::new", b, bb, "Inner constructed in %s" % b.npath, nontrivial=False)

    # ---- (d) need_read ----------------------------------------------------
    nrb = prog.one(r"^actix_http::h1::payload::PayloadSender::need_read$")
    pause = ret_sites(nrb, lambda e: is_agg(e, r"PayloadStatus::Pause$"))
    ck.anchor("C07-d", len(pause), 1, "PayloadStatus::Pause return in need_read")
    for bb, e in pause:
        ck.ob("C07-d.pause-registers", nrb.npath, dominated_by_call(prog, nrb, bb, INNER + r"::register_io$", 1, strict=False) or any(is_call(nrb.term(d), INNER + "::register_io$") for d in nrb.dominators(bb)),
              nrb, bb, "PayloadStatus::Pause is returned only after register_io(cx)")
    # need_read flag is `len < MAX_BUFFER_SIZE` (or literal true)
    n = 0
    for b, bb, s, e in writes_of_field(prog, F + "need_read$", crates):
        n += 1
        ok = e[:3] == ("const", None, 1) or any(
            c[0] == "Lt" and c[3] is True and last_field(c[1]) and rx(F + "len$").search(last_field(c[1])) and e_has_const(c[2], r"payload::MAX_BUFFER_SIZE$")
            for c in cmp_forms(e)
        )
        ck.ob("C07-d.need-read-expr", "%s" % b.npath, bool(ok), b, bb, "need_read := %s" % short(e))
    ck.anchor("C07-d", n, 2, "writes of Inner.need_read")
    v = prog.consts.get("actix_http::h1::payload::MAX_BUFFER_SIZE", {}).get("int")
    ck.ob("C07-d.limit-const", "MAX_BUFFER_SIZE", isinstance(v, int) and 0 < v <= 1 << 20, None, None, "h1::payload::MAX_BUFFER_SIZE = %s" % v, nontrivial=False)
    # the feeder side in the dispatcher: a body cut by the peer's end of input is failed before its end is signalled (shared with C04-c)
    from .c04 import eof_fails_body_first
    eof_fails_body_first(ck, prog, "C07-c")

    # ---- (c) truthful ending, HTTP/2 side: the request-body stream ends cleanly only when the peer's stream ended ------
    for hb in prog.find(r"^<actix_http::h2::Payload as futures_core::stream::Stream>::poll_next$"):
        ends = [(bb, e) for bb, e in hb.ret_exprs() if is_agg(e, r"Poll::Ready$") and e[3] and is_agg(e[3][0], r"Option::None$")]
        ck.anchor("C07-c", len(ends), 1, "clean end (Ready(None)) of the h2 request-body stream")
        for bb, e in ends:
            gs = hb.guards(bb)
            src_none = any(c[0] == "discr" and e_calls(c, r"RecvStream::poll_data$") and lab == "None" for c, lab, a in gs)
            on_err = any(c[0] == "discr" and lab == "Err" for c, lab, a in gs)
            ck.ob("C07-c.h2-end-only-at-stream-end", "h2::Payload::poll_next", src_none and not on_err, hb, bb,
                  "Ready(None) is returned only on poll_data's None (END_STREAM seen); an error of the stream (a reset, whatever its reason code) is never turned into a clean end")


def register_impl(ck, prog, P):
    """Inner::register / register_io store the polling task's waker (replacing a waker of another task); shared by
    C07 (the channel's wake-ups) and C04 (a Pending reader has arranged to be woken)"""
    F = r"\.actix_http::h1::payload::Inner\."
    for name, fld in (("register", "task"), ("register_io", "io_task")):
        b = prog.one(r"^actix_http::h1::payload::Inner::%s$" % name)
        ws = [(bb, e) for (bd, bb, s_, e) in writes_of_field(prog, F + fld + "$", ["actix_http"]) if bd is b]
        ok = any(is_agg(e, r"Option::Some$") and e_calls(e, r"Waker.*clone$|Clone>::clone$") and e_calls(e, r"Context::waker$") for bb, e in ws)
        # the skip branch is only `will_wake`
        if ok:
            wbb = [bb for bb, e in ws][0]
            gs = b.guards(wbb)
            ok = all(e_calls(e, r"is_none_or$") for e, lab, a in gs) if gs else True
        ck.ob(P + ".register-impl", b.npath, ok, b, ws[0][0] if ws else None, "%s stores Some(cx.waker().clone()) into Inner.%s unless the stored waker will_wake the same task" % (name, fld))
