"""C04 — HTTP/1 connections always progress: flush accounting, waker hand-off, shutdown chain."""
from ..h1 import *  # noqa

EXPLANATION = (
    "Static rules over actix_http::h1::dispatcher: (a) flush accounting in poll_flush — every Poll::Pending it returns is "
    "dominated by write_buf.advance(written), the final socket flush is dominated by write_buf.clear() which lies on the "
    "loop-exit edge (written >= len), `written` only grows by the byte count poll_write reported, the slice handed to "
    "poll_write starts at `written`, Ready(0) ends in WriteZero; a missing advance re-sends bytes, a misplaced clear "
    "drops or duplicates them. (b) waker hand-off — every literal Poll::Pending in dispatcher code that has a Context is "
    "dominated by a call that received the context; the final Pending of Dispatcher::poll self-wakes whenever LINGER or "
    "SHUTDOWN is set (decided on the graph in which every late test covering the flag takes its true edge); the "
    "buffer-full early exit of read_available either waits for the payload consumer (Pause after register_io) or "
    "self-wakes; poll_linger's Pending follows a pending flush or an armed linger timer; a finished linger self-wakes. "
    "(c) shutdown chain — peer EOF sets READ_DISCONNECT and fails the body before signalling its end, READ_DISCONNECT "
    "(with state none or half-close disallowed) sets SHUTDOWN, the SHUTDOWN branch flushes then returns poll_shutdown's "
    "result, WRITE_DISCONNECT ends the task. Liveness proper and exactly-once delivery of byte values are not decided."
)
RULES = "guarded-site, must-pass-through and flag-conditioned reachability over the dispatcher CFGs; value-provenance slices for the flush counter."


def flush_accounting(ck, prog, P="C04-a"):
    """flush accounting of InnerDispatcher::poll_flush; shared by C04 (written exactly once) and C02 (never
    interleaved / duplicated): rule ids are prefixed with P"""
    pf = disp(prog, "poll_flush")
    WB = DF + r"write_buf$"

    def on_wb(e):
        return e_has_field(e, WB)

    # ---- (a) flush accounting -------------------------------------------
    adv = [bb for bb, t in pf.calls(r"BytesMut::advance$|Buf>::advance$|Buf::advance$") if on_wb(pf.op_expr(t["args"][0]))]
    clr = [bb for bb, t in pf.calls(r"BytesMut::clear$") if on_wb(pf.op_expr(t["args"][0]))]
    ck.anchor(P, len(adv), 1, "write_buf.advance(..) in poll_flush")
    ck.anchor(P, len(clr), 1, "write_buf.clear() in poll_flush")
    pend = ret_sites(pf, lambda e: is_agg(e, r"Poll::Pending$"))
    ck.anchor(P, len(pend), 1, "Poll::Pending returns in poll_flush")
    for bb, e in pend:
        ok = any(pf.dominates(a, bb) for a in adv)
        ck.ob(P + ".pending-advances", "poll_flush|Pending", ok, pf, bb, "Poll::Pending is dominated by write_buf.advance(written): bytes already written are not sent again")
    # W = the usize local(s) that mark where the next socket write starts: poll_write is given write_buf[W..]
    W = set()
    for bb, t in pf.calls(r"AsyncWrite::poll_write$"):
        buf = pf.op_expr(t["args"][2])
        for x in walk(buf):
            if is_agg(x, r"RangeFrom$"):
                W |= set(o[1] for o in x[3] if o[0] in ("var", "phi") and pf.lty(o[1]) == "usize")
    ck.anchor(P, len(W), 1, "usize local that is the start of the slice given to poll_write (running byte count)")
    for a in adv:
        arg = pf.op_expr(pf.term(a)["args"][1])
        ok = is_local(arg, W)
        ck.ob(P + ".advance-arg", "poll_flush", ok, pf, a, "advance() argument is exactly the running byte count: %s" % short(arg))
    # tail: value returned from the socket flush must come after clear()
    tails = [(bb, e) for bb, e in pf.ret_exprs() if e_calls(e, r"AsyncWrite::poll_flush$")]
    other_ready = [(bb, e) for bb, e in pf.ret_exprs() if agg_chain(e)[0][:2] == ["core::task::poll::Poll::Ready", "core::result::Result::Ok"]]
    ck.anchor(P, len(tails) + len(other_ready), 1, "success exits of poll_flush")
    for bb, e in tails + other_ready:
        ok = any(pf.dominates(c, bb) for c in clr)
        ck.ob(P + ".flush-after-clear", "poll_flush|%s" % ("io.poll_flush" if e[0] == "call" else "Ready(Ok)"), ok, pf, bb, "success exit is dominated by write_buf.clear()")
    # any Pending produced by propagating the socket flush (`ready!`) must also be after clear
    for a in pf.live:
        br = pf.branch(a)
        if br and br[0][0] == "discr" and e_calls(br[0], r"AsyncWrite::poll_flush$"):
            ok = any(pf.dominates(c, a) for c in clr)
            ck.ob(P + ".flush-after-clear", "poll_flush|match io.poll_flush", ok, pf, a, "the socket flush is polled only after write_buf.clear()")
    for c in clr:
        ok = guarded_by(pf, c, cmp_pred("Lt", lambda e: root_is(e, W), lambda e: bool(e_calls(e, r"BytesMut::len$")), False))[0]
        ck.ob(P + ".clear-on-loop-exit", "poll_flush", ok, pf, c, "write_buf.clear() only on the edge `written >= len` (everything was handed to the socket)")
    # `written` grows only by poll_write's count
    wl = sorted(W)
    for l in wl:
        for d in pf.defs().get(l, []):
            e = pf.def_expr(d, 8)
            ok = e[:3] == ("const", None, 0)
            if not ok:
                top = e[1] if e[0] == "place" else e
                ok = top[0] == "bin" and top[1] in ("Add", "AddWithOverflow") and is_local(top[2], W) and bool(e_calls(top[3], r"AsyncWrite::poll_write$")) and not e_bins(top[3])
            ck.ob(P + ".written-provenance", "poll_flush|%s" % ("init" if e[0] == "const" else "step"), ok, pf, d[1], "written := %s" % short(e, 3))
    for bb, t in pf.calls(r"AsyncWrite::poll_write$"):
        buf = pf.op_expr(t["args"][2])
        ok = on_wb(buf) and any(is_agg(x, r"RangeFrom$") and root_is(x, W) for x in walk(buf))
        ck.ob(P + ".write-slice", "poll_flush", ok, pf, bb, "poll_write is given write_buf[written..]")
    wz = [bb for bb, e in pf.ret_exprs() if e_has_const(e, r"ErrorKind::WriteZero$") or any(x[0] == "agg" and (x[2] or "").endswith("WriteZero") for x in walk(e))]
    ck.ob(P + ".write-zero", "poll_flush", bool(wz), pf, wz[0] if wz else None, "a zero-length write ends the connection with WriteZero instead of spinning")



def run(ck, prog, tier, load):
    pf = disp(prog, "poll_flush")
    WB = DF + r"write_buf$"

    def on_wb(e):
        return e_has_field(e, WB)

    flush_accounting(ck, prog, "C04-a")

    # ---- (b) waker hand-off ------------------------------------------------
    n = 0
    for b in prog.in_file("actix-http/src/h1/dispatcher.rs"):
        cxs = [i for i, l in enumerate(b.locals) if l["k"] == "arg" and "core::task::wake::Context" in l["ty"]]
        if not cxs:
            continue
        for bb, st, e in agg_sites(b, r"Poll::Pending$"):
            n += 1
            ok = False
            for d in b.dominators(bb):
                t = b.term(d)
                if t["k"] == "call" and any(any(r[0] == "arg" and r[1] in cxs for r in e_roots(b.op_expr(a))) for a in t["args"]):
                    ok = True
                    break
            gl = b.guards(bb)
            near = ("%s=%s" % (short(gl[0][0], 2), gl[0][1])) if gl else "entry"
            ck.ob("C04-b.pending-saw-context", "%s|under %s" % (b.npath.split("::")[-1], near), ok, b, bb, "literal Pending is dominated by a call that received the task context")
    ck.anchor("C04-b", n, 3, "literal Poll::Pending returns in h1 dispatcher bodies with a Context")

    poll = disp_poll(prog)
    wk = [bb for bb, t in poll.calls(r"Waker::wake_by_ref$")]
    ck.anchor("C04-b", len(wk), 2, "wake_by_ref calls in Dispatcher::poll")
    # the final Pending of the normal branch: the one whose dominators include poll_response
    finals = [bb for bb, st, e in agg_sites(poll, r"Poll::Pending$") if any(is_call(poll.term(d), r"InnerDispatcher::poll_response$") for d in poll.dominators(bb))]
    ck.anchor("C04-b", len(finals), 1, "final Poll::Pending of the normal branch of Dispatcher::poll")
    for fin in finals:
        for f in ("LINGER", "SHUTDOWN"):
            setters = blocks_setting_flag(prog, poll, f)
            # late tests: switch blocks covering f from which no setter of f is reachable
            forced = set()
            n_late = 0
            for a in poll.live:
                br = poll.branch(a)
                if not br:
                    continue
                ft = flag_test(br[0])
                if not ft or f not in ft[1]:
                    continue
                if poll.reach([a]) & setters:
                    continue
                if not (poll.dominates(a, fin) or fin in poll.reach([a])):
                    continue
                # value of "f is set" on each edge
                fn, fl, tr = ft
                for lab, tb in br[1]:
                    if not isinstance(lab, bool):
                        continue
                    v = lab if tr else (not lab)
                    covers = fn == "intersects" or fl == {f}
                    if covers and v is False:
                        forced.add((a, tb))  # edge impossible when f is set
                        n_late += 1
            r = poll.reach([0], removed=set(wk), removed_edges=forced)
            ok = n_late > 0 and fin not in r
            ck.ob("C04-b.final-pending-self-wakes", "Dispatcher::poll|%s" % f, ok, poll, fin,
                  "with %s set the final Pending is reached only through wake_by_ref (late tests covering the flag: %d)" % (f, n_late),
                  witness=poll.path_lines(poll.path_between([0], fin, removed=set(wk), removed_edges=forced)) if not ok else None)
    # LINGER branch: Ready(()) from poll_linger => self-wake
    lr = []
    for a in poll.live:
        br = poll.branch(a)
        if br and br[0][0] == "discr" and e_calls(br[0], r"InnerDispatcher::poll_linger$") and br[0][2] == "core::task::poll::Poll":
            lr += [tb for lab, tb in br[1] if lab == "Ready"]
    ck.anchor("C04-b", len(lr), 1, "Ready edge of poll_linger in Dispatcher::poll")
    for tb in lr:
        ok = poll.must_pass([tb], poll.returns(), wk)[0]
        ck.ob("C04-b.linger-done-self-wakes", "Dispatcher::poll", ok, poll, tb, "when lingering finishes the task re-polls itself (wake_by_ref) to run the shutdown branch")
    # read_available: buffer-full exit
    ra = disp(prog, "read_available")
    full = edges_where(ra, cmp_pred("Lt", lambda e: e_has_field(e, DF + "read_buf$"), lambda e: e_has_const(e, r"MAX_BUFFER_SIZE$"), False))
    ck.anchor("C04-b", len(full), 1, "buffer-full edge in read_available")
    rwk = set(bb for bb, t in ra.calls(r"Waker::wake_by_ref$"))
    pause = set()
    for a in ra.live:
        br = ra.branch(a)
        if br and br[0][0] == "discr" and br[0][2] == "actix_http::h1::payload::PayloadStatus":
            for lab, tb in br[1]:
                if labels_in(lab, ("Pause",)):
                    pause.add(tb)
    # the same test spelled `matches!(status, Some(Pause))`: the edge of the bool switch taken when the temporary holds the
    # constant stored in the Pause arm is an edge "under Pause" too
    pause_edges = set()
    for a in ra.live:
        br = ra.branch(a)
        if not br:
            continue
        e0, pos = strip_not(br[0], True)
        if not (isinstance(e0, tuple) and e0[0] == "phi"):
            continue
        alld = ra.defs().get(e0[1], [])
        if not alld or not all(d[0] == "=" and d[3]["k"] == "use" and "const" in d[3]["ops"][0] for d in alld):
            continue
        for lab, tb2 in br[1]:
            if not isinstance(lab, bool):
                continue
            want = 1 if (lab if pos else not lab) else 0
            arms = [d for d in alld if d[3]["ops"][0]["const"].get("int") == want]
            if len(arms) == 1 and any(c[0] == "discr" and c[2] == "actix_http::h1::payload::PayloadStatus" and labels_in(lab2, ("Pause",)) for c, lab2, a2 in ra.guards(arms[0][1])):
                pause_edges.add((a, tb2))
    for a, tb in full:
        r_ = ra.reach([tb], removed=rwk | pause, removed_edges=pause_edges)
        ok = tb not in (rwk | pause) and not (set(ra.returns()) & set(r_)) or tb in (rwk | pause)
        wit = None if ok else ra.path_between([tb], sorted(set(ra.returns()) & set(r_))[0], removed=rwk | pause, removed_edges=pause_edges)
        ck.ob("C04-b.buffer-full-exit", "read_available", ok and bool(pause or pause_edges), ra, tb,
              "the buffer-full early return either waits for the body consumer (need_read == Pause, which registered the task) or self-wakes", witness=ra.path_lines(wit))
    # read path: every return Ok(false) of read_available outside the full/disconnect exits follows a Pending/WouldBlock of the socket
    # poll_linger
    pl = disp(prog, "poll_linger")
    for bb, e in pl.ret_exprs():
        names, _ = agg_chain(e)
        if names[:2] == ["core::result::Result::Ok", "core::task::poll::Poll::Pending"]:
            g1 = any(e_calls(c, r"Poll.*::is_pending$") and e_calls(c, r"InnerDispatcher::poll_flush$") and lab is True for c, lab, a in pl.guards(bb))
            g2 = any(e_calls(strip_not(c)[0], r"InnerDispatcher::ensure_linger_timer$") and (lab is (True if strip_not(c)[1] else False)) for c, lab, a in pl.guards(bb))
            ck.ob("C04-b.linger-pending", "poll_linger|%s" % ("flush" if g1 else "timer" if g2 else "?"), g1 or g2, pl, bb, "Ok(Pending) follows a pending flush (%s) or an armed linger timer (%s)" % (g1, g2))
    elt = disp(prog, "ensure_linger_timer")
    for bb, e in elt.ret_exprs():
        if e[:3] == ("const", None, 1):
            ok = any(is_call(elt.term(d), r"TimerState::set_and_init$") for d in elt.dominators(bb)) or any(c[0] == "discr" and e_has_field(c, DF + "shutdown_timer$") for c, lab, a in elt.guards(bb))
            ck.ob("C04-b.linger-timer-armed", "ensure_linger_timer", ok, elt, bb, "returns true only with the shutdown timer active (already, or set_and_init(cx, ..) just now)")

    timer_polls_observed(ck, prog, "C04-b")
    # the request-body reader's Pending: the channel stores the waker of the task that polled last (shared with C07-d)
    from .c07 import register_impl
    register_impl(ck, prog, "C04-b")

    # ---- (c) shutdown chain ---------------------------------------------------
    ops = flag_ops(poll)
    rd = [(bb, fl) for bb, op, fl, t in ops if op == "insert" and "READ_DISCONNECT" in fl]
    ck.anchor("C04-c", len(rd), 1, "insert(READ_DISCONNECT) in Dispatcher::poll")
    for bb, fl in rd:
        ok = any(e_calls(c, r"InnerDispatcher::read_available$") and lab is True for c, lab, a in poll.guards(bb))
        ck.ob("C04-c.eof-sets-read-disconnect", "Dispatcher::poll", ok, poll, bb, "READ_DISCONNECT is set on the edge where read_available reported end of input")
    eof_fails_body_first(ck, prog, "C04-c")
    sd = [(bb, fl) for bb, op, fl, t in ops if op == "insert" and "SHUTDOWN" in fl]
    ck.anchor("C04-c", len(sd), 2, "insert(SHUTDOWN) in Dispatcher::poll")
    ok = any(guarded_by(poll, bb, flag_edge("READ_DISCONNECT", True))[0] for bb, fl in sd)
    ck.ob("C04-c.read-closed-starts-shutdown", "Dispatcher::poll", ok, poll, None, "some insert(SHUTDOWN) is guarded by contains(READ_DISCONNECT)")
    ps = [bb for bb, t in poll.calls(r"AsyncWrite::poll_shutdown$")]
    ck.anchor("C04-c", len(ps), 1, "poll_shutdown in Dispatcher::poll")
    for bb in ps:
        g = guarded_by(poll, bb, flag_edge("SHUTDOWN", True))[0]
        fl = any(is_call(poll.term(d), r"InnerDispatcher::poll_flush$") for d in poll.dominators(bb))
        ck.ob("C04-c.shutdown-flushes-first", "Dispatcher::poll", g and fl, poll, bb, "socket shutdown happens under SHUTDOWN (%s) and after poll_flush completed (%s)" % (g, fl))
    wd = [bb for bb, st, e in agg_sites(poll, r"Poll::Ready$") if agg_chain(e)[0][:2] == ["core::task::poll::Poll::Ready", "core::result::Result::Ok"] and guarded_by(poll, bb, flag_edge("WRITE_DISCONNECT", True))[0]]
    ck.ob("C04-c.write-disconnect-ends", "Dispatcher::poll", len(wd) >= 2, poll, wd[0] if wd else None, "WRITE_DISCONNECT ends the task with Ready(Ok(())) in the shutdown branch and after the write loop (%d exits)" % len(wd))
    error_exit(ck, prog, "C04-c")


def error_exit(ck, prog, P):
    """the stored stream error (recorded when an error response was queued) ends the task only after that response left
    the write buffer and no dispatched request is still unanswered; shared by C04 (all bytes flushed) and C02 (exactly one
    response per dispatched request)"""
    poll = disp_poll(prog)
    errs = [(bb, e) for bb, e in poll.ret_exprs() if any(x[0] == "call" and rx(r"Option.*::take$").search(x[1] or "") and e_has_field(x, r"\.error$") for x in walk(e))]
    ck.anchor(P, len(errs), 1, "return of the stored stream error (inner.error.take()) in Dispatcher::poll")
    wb_empty = lambda c, lab: bool(bool_test(c, lab)) and bool_test(c, lab)[1] is True and bool_test(c, lab)[0][0] == "call" and rx(r"BytesMut::is_empty$").search(bool_test(c, lab)[0][1] or "") is not None and e_has_field(bool_test(c, lab)[0], r"write_buf$")
    st_none = lambda c, lab: bool(bool_test(c, lab)) and bool_test(c, lab)[1] is True and bool_test(c, lab)[0][0] == "call" and rx(r"State.*::is_none$").search(bool_test(c, lab)[0][1] or "") is not None
    for bb, e in errs:
        ok, wit = guarded_by(poll, bb, wb_empty)
        ck.ob(P + ".error-exit-after-flush", "Dispatcher::poll", ok, poll, bb, "the connection future resolves with the stored error only on the edge write_buf.is_empty(): the error response queued with it has been written completely", witness=poll.path_lines(wit))
        ok2, wit2 = guarded_by(poll, bb, st_none)
        ck.ob(P + ".error-exit-after-responses", "Dispatcher::poll", ok2, poll, bb, "... and only on the edge state.is_none(): no dispatched request is still waiting for its response (returning earlier drops the pending handler and its response is never written)", witness=poll.path_lines(wit2))


def timer_polls_observed(ck, prog, P):
    """shared by C04 (no lost wake-up) and C06 (the timeout is acted upon)"""
    # a timer that is polled must have its answer looked at: `Ready` registers no waker, so a discarded `Ready` (a
    # deadline that had already passed when the timer was armed: deadlines come from a cached clock) leaves the task
    # with nothing to wake it and the expiry is never acted upon
    n_tp = 0
    for b in list(prog.in_file("actix-http/src/h1/timer.rs")) + list(prog.in_file("actix-http/src/h1/dispatcher.rs")):
        if "::tests::" in b.npath or b.npath.endswith("_tests"):
            continue
        for bb, t in b.calls(r"Future>::poll$|Future::poll$"):
            recv = b.op_expr(t["args"][0], 5)
            if not any(isinstance(p_, str) and (p_.endswith("Active.timer") or p_.endswith("_timer")) for x in walk(recv) if x[0] == "place" for p_ in x[2]):
                continue
            n_tp += 1
            is_this = lambda x: x[0] == "call" and x[3] == bb and rx(r"Future>::poll$|Future::poll$").search(x[1] or "") is not None
            branched = any(b.branch(a) and any(is_this(x) for x in walk(b.branch(a)[0])) for a in b.live)
            returned = any(any(is_this(x) for x in walk(e)) for rb, e in b.ret_exprs())
            wakes = [w for w, t2 in b.calls(r"Waker::wake_by_ref$|Waker::wake$")]
            ck.ob(P + ".timer-poll-observed", "%s" % b.npath.split("::")[-1], branched or returned, b, bb,
                  "the Poll returned by polling a timer is examined (branched on or returned): a discarded `Ready` means an already-expired deadline is never acted upon and no wake-up is registered for it")
    ck.anchor(P, n_tp, 2, "polls of dispatcher timers (init, head, keep-alive, shutdown)")
    # (re-)arming installs a NEW Sleep that no task has polled yet: it must be polled with the task context on every path,
    # whatever the state before (an already armed timer is replaced, and the replacement has no waker registered)
    si = prog.one(r"^actix_http::h1::timer::TimerState::set_and_init$")
    sets = [bb for bb, t in si.calls(r"TimerState::set$")]
    inits = [bb for bb, t in si.calls(r"TimerState::init$")]
    ck.anchor(P, len(sets), 1, "TimerState::set in set_and_init")
    for bb in sets:
        ok, wit = si.must_pass_after(bb, si.returns(), inits) if inits else (False, None)
        ck.ob(P + ".arming-always-polls", "TimerState::set_and_init", ok, si, bb, "after storing the new timer it is polled once (init) on every path, also when a timer was already active", witness=si.path_lines(wit))


def eof_fails_body_first(ck, prog, P):
    """when the peer's end of input is seen with a request body still open, the body is failed (set_error(Incomplete))
    before its end is signalled (feed_eof), for every kind of body; shared by C04 (shutdown chain) and C07 (truthful ending)"""
    poll = disp_poll(prog)
    rd = [(bb, fl) for bb, op, fl, t in flag_ops(poll) if op == "insert" and "READ_DISCONNECT" in fl]
    ck.anchor(P, len(rd), 1, "insert(READ_DISCONNECT) in Dispatcher::poll")
    for bb, fl in rd:
        se = [b2 for b2, t in poll.calls(r"PayloadSender::set_error$") if poll.dominates(bb, b2)]
        fe = [b2 for b2, t in poll.calls(r"PayloadSender::feed_eof$") if poll.dominates(bb, b2)]
        ok2 = bool(se) and bool(fe) and all(any(poll.dominates(s_, f) for s_ in se) for f in fe)
        ck.ob(P + ".eof-fails-body-first", "Dispatcher::poll", ok2, poll, fe[0] if fe else bb, "an unfinished request body gets set_error(Incomplete) before feed_eof on every path (never a clean end for a cut body, chunked or sized)")
