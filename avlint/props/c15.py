"""C15 — multipart parsing: no hang after end of stream, bounded buffer, waker hand-off."""
from ..rules import *  # noqa

EXPLANATION = (
    "Static rules over actix_multipart: (a) every `Poll::Pending` a parser function returns is justified on every "
    "control-flow path by one of: the false edge of a test of PayloadBuffer.eof (more input can still arrive), the "
    "need-more result (`None`) of a callee whose own need-more returns are eof-guarded (summaries computed for "
    "read_max / read_until / readline / readline_or_eof / read_boundary / skip_until_boundary / read_field_headers), "
    "propagation of a callee's Pending, or the safety gate (another reader owns the stream; Safety::drop wakes). "
    "After end-of-stream no wake-up can ever come, so an unjustified Pending is a hang. "
    "(b) every append to the parser buffer is dominated by the buffer-limit comparison and clamped to the free space. "
    "(c) both Stream::poll_next impls hand the task context to PayloadBuffer::poll_stream before parsing, poll_stream "
    "self-wakes when it stops early after appending, Safety::drop wakes the registered task. "
    "(d) Inner.state only moves FirstBoundary->Headers|Eof, Boundary->Headers|Eof, Headers->Boundary. "
    "(e) need-more returns of the scanners happen before any consumption of the buffer. "
    "Exactness of delivered field bytes is a value-level fact and is not decided."
)
RULES = (
    "guarded-site with callee need-more summaries and correlated-test pruning; must-pass-through; field-effect sets. "
    "Non-trivial = a Pending/need-more site whose justification required a dominance or path query."
)

EOF_F = r"\.actix_multipart::payload::PayloadBuffer\.eof$"
PB = "actix_multipart::payload::PayloadBuffer"


def is_eof_test(c):
    c2, _ = strip_not(c)
    lf = last_field(c2)
    return lf is not None and rx(EOF_F).search(lf) is not None


def eof_value(c, lab):
    """value of PayloadBuffer.eof established by edge `lab` of condition c"""
    c2, tr = strip_not(c, True)
    if not isinstance(lab, bool):
        return None
    return lab if tr else (not lab)


def eof_false_edges(b):
    """edges (a, s) on which PayloadBuffer.eof is known false"""
    out = set()
    for a in b.live:
        br = b.branch(a)
        if not br:
            continue
        if is_eof_test(br[0]):
            for lab, tb in br[1]:
                if eof_value(br[0], lab) is False:
                    out.add((a, tb))
    return out


class Summ:
    """need-more summaries: does function f return its need-more value
    (Ok(None)) only when eof is false?"""

    def __init__(self, prog, ck):
        self.prog = prog
        self.ck = ck
        self.memo = {}

    def guarded_site(self, b, bb):
        """every path to bb passes an eof==false edge (dead edges pruned)"""
        ef = eof_false_edges(b)
        if not ef:
            return False, None
        r = b.reach([0], removed_edges=ef | b.dead_edges())
        if bb not in r:
            return True, None
        return False, b.path_between([0], bb, removed_edges=ef | b.dead_edges())

    def need_more_ok(self, f, depth=4):
        """(ok, reasons) for a Result<Option<_>,_> returning scanner"""
        if f.path in self.memo:
            return self.memo[f.path]
        self.memo[f.path] = (True, ["recursive"])
        ok = True
        why = []
        n_sites = 0
        for bb, e in f.ret_exprs():
            names, innermost = agg_chain(e)
            if names[:1] == ["core::result::Result::Err"]:
                continue
            if names[:2] == ["core::result::Result::Ok", "core::option::Option::Some"]:
                continue
            if names[:2] == ["core::result::Result::Ok", "core::option::Option::None"]:
                n_sites += 1
                g, wit = self.guarded_site(f, bb)
                self.ck.ob("C15-a.need-more-guarded", "%s" % f.npath, g, f, bb,
                           "`Ok(None)` (need more input) returned only while !eof", witness=f.path_lines(wit))
                ok = ok and g
                why.append("Ok(None)@%d:%s" % (f.line(bb), g))
                continue
            if names[:1] == ["core::result::Result::Ok"]:
                # Ok(eof.then_some(x)): None <=> !eof
                inner = e[3][0] if e[3] else None
                cs = e_calls(inner, r"bool::then_some$|bool::then$") if inner else []
                if cs and is_eof_test(cs[0][2][0]):
                    n_sites += 1
                    self.ck.ob("C15-a.need-more-guarded", "%s|then_some" % f.npath, True, f, bb, "`Ok(eof.then_some(_))`: None exactly when !eof")
                    continue
                if inner is not None and inner[0] in ("const",):
                    continue
                if inner is not None and inner[0] == "phi" and f.defs().get(inner[1]):
                    # Ok(if eof { Some(x) } else { None }): every None stored into the returned slot sits under !eof
                    good, cls = True, True
                    for d in f.defs().get(inner[1], []):
                        de = f.def_expr(d, 4)
                        if is_agg(de, r"Option::Some$"):
                            continue
                        if is_agg(de, r"Option::None$"):
                            n_sites += 1
                            g, wit = self.guarded_site(f, d[1])
                            self.ck.ob("C15-a.need-more-guarded", "%s" % f.npath, g, f, d[1],
                                       "`None` (need more input) stored into the returned value only while !eof", witness=f.path_lines(wit))
                            good = good and g
                            continue
                        cls = False
                    if cls:
                        ok = ok and good
                        continue
            # delegation: the returned value is (derived from) a callee's result
            cs = [c for c in walk(e) if c[0] == "call" and rx(r"^actix_multipart::").search(c[1] or "")]
            if e[0] == "call" and rx(r"from_residual$").search(e[1] or ""):
                continue  # `?` error path
            deleg = False
            for c in cs:
                cb = self.prog.nbodies.get(c[1])
                if cb and len(cb) == 1 and depth > 0:
                    o2, w2 = self.need_more_ok(cb[0], depth - 1)
                    deleg = True
                    ok = ok and o2
                    why.append("delegates to %s:%s" % (c[1].split("::")[-1], o2))
            if deleg:
                continue
            ok = False
            why.append("unclassified return %s @%d" % (short(e), f.line(bb)))
            self.ck.ob("C15-a.need-more-guarded", "%s|unclassified" % f.npath, False, f, bb, "cannot classify returned value %s" % short(e))
        self.memo[f.path] = (ok, why)
        return ok, why


SCANNERS = r"^actix_multipart::(payload::PayloadBuffer::(read_max|read_until|readline|readline_or_eof)|multipart::Inner::(read_boundary|skip_until_boundary|read_field_headers))$"


def run(ck, prog, tier, load):
    mp = [b for b in prog.bodies.values() if b.crate == "actix_multipart" and not b.file.endswith("test.rs")]
    summ = Summ(prog, ck)
    scanners = prog.find(SCANNERS)
    ck.anchor("C15-a", len(scanners), 4, "need-more scanners (read_max, read_until, readline, readline_or_eof, read_boundary, skip_until_boundary, read_field_headers)")
    for f in scanners:
        summ.need_more_ok(f)

    # ---- (a) Pending sites ------------------------------------------------
    n_pending = 0
    for b in sorted(mp, key=lambda x: x.path):
        if not (b.file.endswith("field.rs") or b.file.endswith("multipart.rs") or b.file.endswith("payload.rs")):
            continue
        pend = ret_sites(b, lambda e: is_agg(e, r"core::task::poll::Poll::Pending$"))
        for bb, e in pend:
            n_pending += 1
            just = None
            # (1) eof-guarded on every path
            g, wit = summ.guarded_site(b, bb)
            if g:
                just = "guarded by !eof"
            if just is None:
                for c, lab, a in b.guards(bb):
                    if c[0] != "discr":
                        continue
                    # (2) need-more of a summarised callee
                    if lab == "None":
                        for cl in e_calls(c):
                            cb = prog.nbodies.get(cl[1])
                            if cb and len(cb) == 1 and rx(SCANNERS).search(cl[1]):
                                ok2, why = summ.need_more_ok(cb[0])
                                if ok2:
                                    just = "need-more of %s (summary: eof-guarded)" % cl[1].split("::")[-1]
                                else:
                                    just = None
                                break
                        if just:
                            break
                        # (4) safety gate
                        if e_calls(c, r"payload::PayloadRef::get_mut$"):
                            just = "safety gate (another reader owns the stream; Safety::drop wakes)"
                            break
                    # (3) propagation of a callee's Pending
                    if lab == "Pending" and e_calls(c):
                        just = "propagates Pending of %s" % (e_calls(c)[0][1] or "?").split("::")[-1]
                        break
            gl = b.guards(bb)
            near = ("%s=%s" % (short(gl[0][0], 3), gl[0][1])) if gl else "entry"
            ck.ob("C15-a.pending-justified", "%s|under %s" % (b.npath, near), just is not None, b, bb,
                  "Poll::Pending in %s: %s" % (b.npath.split("::")[-1], just or "NOT justified: reachable with eof already seen -> no wake-up will ever come (hang)"),
                  witness=b.path_lines(wit) if just is None else None)
    ck.anchor("C15-a", n_pending, 5, "Poll::Pending return sites in the multipart parser")

    # ---- (b) bounded fill --------------------------------------------------
    BUF = r"\.actix_multipart::payload::PayloadBuffer\.buf$"
    ext = [(b, bb, t) for (b, bb, t, m) in method_calls_on_field(prog, BUF, ["actix_multipart"]) if m == "extend_from_slice" and not b.file.endswith("test.rs")]
    ck.anchor("C15-b", len(ext), 2, "extend_from_slice on PayloadBuffer.buf")
    for b, bb, t in ext:
        arg = b.op_expr(t["args"][1])
        if b.npath.endswith("::unprocessed"):
            ok = bool(e_calls(arg, r"core::mem::replace$"))
            ck.ob("C15-b.refill", b.npath, ok, b, bb, "unprocessed() re-appends only the bytes it just swapped out of the buffer")
            continue

        def lim_cmp(c, lab):
            n = norm_cmp(c, lab) if isinstance(lab, bool) else None
            if not n:
                return False
            op, x, y, truth = n
            return op == "Lt" and truth is True and e_calls(x, r"BytesMut::len$") and e_has_field(x, BUF) and e_has_field(y, r"PayloadBuffer\.buffer_limit$")

        g = any(lim_cmp(c, lab) for c, lab, a in b.guards(bb))
        # clamp: len = min(data.len(), buffer_limit - buf.len())
        clamp = False
        for c in e_calls(arg, r"split_to$") + [x for cnd, lab, a in b.guards(bb) for x in [cnd]]:
            for m in e_calls(c, r"core::cmp::min$"):
                subs = [s for s in e_bins(m, ("Sub", "SubWithOverflow")) if e_has_field(s[2], r"buffer_limit$") and e_has_field(s[3], BUF)]
                if subs:
                    clamp = True
        ck.ob("C15-b.bounded-append", "%s" % b.npath, g and clamp, b, bb,
              "buf.extend_from_slice dominated by buf.len() < buffer_limit (%s) and clamped to min(data.len(), buffer_limit - buf.len()) (%s)" % (g, clamp))
    # callers of unprocessed give back bytes just read
    for b, bb, t in prog.callers(r"^actix_multipart::payload::PayloadBuffer::unprocessed$"):
        if b.file.endswith("test.rs"):
            continue
        arg = b.op_expr(t["args"][1])
        ck.ob("C15-b.unprocessed-arg", b.npath, bool(e_calls(arg, r"PayloadBuffer::read_max$")), b, bb, "unprocessed(chunk) returns the remainder of a chunk just taken by read_max")
    # buffer_limit == 0 rejected, overflow error when full with pending data
    ps = prog.one(r"^actix_multipart::payload::PayloadBuffer::poll_stream$")
    ap = prog.one(r"^actix_multipart::payload::PayloadBuffer::append_pending$")
    of = ret_sites(ap, lambda e: is_agg(e, r"Result::Err$") and is_agg(e[3][0], r"PayloadError::Overflow$"))
    ck.ob("C15-b.overflow-error", ap.npath, bool(of), ap, of[0][0] if of else None, "append_pending reports PayloadError::Overflow when the buffer is full and data is pending")

    # ---- (c) waker hand-off -------------------------------------------------
    for pat, inner_pat in (
        (r"^<actix_multipart::multipart::Multipart as futures_core::stream::Stream>::poll_next$", r"multipart::Inner::poll$"),
        (r"^<actix_multipart::field::Field as futures_core::stream::Stream>::poll_next$", r"field::InnerField::poll$"),
    ):
        b = prog.one(pat)
        inner_calls = [bb for bb, t in b.calls(inner_pat)]
        pst = [bb for bb, t in b.calls(r"PayloadBuffer::poll_stream$") if any(root_is(b.op_expr(a), args_of_type(b, r"core::task::wake::Context")) for a in t["args"])]
        ok = bool(inner_calls) and bool(pst) and all(any(b.dominates(p, i) for p in pst) for i in inner_calls)
        ck.ob("C15-c.poll-stream-first", b.npath, ok, b, inner_calls[0] if inner_calls else None,
              "parsing is dominated by PayloadBuffer::poll_stream(cx): the task is registered with the source before Pending can be returned")
    # poll_stream: early exits after an append self-wake
    # APP = the bool variable(s) of poll_stream accumulating the result of append_pending() ("something was appended")
    APP = set(l for l in user_locals(ps, r"^bool$") if any(e_calls(ps.def_expr(d, 5), r"append_pending$") for d in ps.defs().get(l, [])))
    ck.anchor("C15-c", len(APP), 1, "bool variable fed by append_pending() in poll_stream")
    app_sw = []
    for a in ps.live:
        br = ps.branch(a)
        if br and root_is(br[0], APP):
            app_sw.append((a, br))
    ck.anchor("C15-c", len(app_sw), 2, "tests of `appended` in poll_stream")
    wk = [bb for bb, t in ps.calls(r"Waker::wake_by_ref$")]
    for a, br in app_sw:
        te = [tb for lab, tb in br[1] if lab is True]
        ok = bool(te) and ps.must_pass(te, ps.returns(), wk)[0]
        ck.ob("C15-c.self-wake", "%s|%d" % (ps.npath, app_sw.index((a, br))), ok, ps, a, "appended==true exit wakes the task (wake_by_ref) before returning")
    # every Ok(()) return of poll_stream is after: stream Pending | stream end (eof set) | an `appended` test
    pend_edges = []
    none_edges = []
    for a in ps.live:
        br = ps.branch(a)
        if br and br[0][0] == "discr" and e_calls(br[0], r"Stream::poll_next$|stream::Stream.*poll_next$"):
            for lab, tb in br[1]:
                if lab == "Pending":
                    pend_edges.append(tb)
                if lab == "None":
                    none_edges.append(tb)
    ck.anchor("C15-c", len(pend_edges), 1, "Pending edge of the source stream in poll_stream")
    errs = [bb for bb, e in ps.ret_exprs() if is_agg(e, r"Result::Err$") or (e[0] == "call" and rx("from_residual").search(e[1] or ""))]
    through = set(pend_edges) | set(none_edges) | {a for a, br in app_sw} | set(errs)
    ok, wit = ps.must_pass([0], ps.returns(), through)
    ck.ob("C15-c.poll-stream-exits", ps.npath, ok, ps, None, "every return of poll_stream follows: source Pending (waker registered) | source end | error | an `appended` self-wake test", witness=ps.path_lines(wit))
    eofw = [bb for (bd, bb, s, e) in writes_of_field(prog, EOF_F, ["actix_multipart"]) if bd is ps and e[:3] == ("const", None, 1)]
    ok = bool(eofw) and bool(none_edges) and all(ps.must_pass([ne], ps.returns(), eofw)[0] for ne in none_edges)
    ck.ob("C15-c.eof-recorded", ps.npath, ok, ps, eofw[0] if eofw else None, "end of the source stream sets PayloadBuffer.eof on every path")
    for (bd, bb, s, e) in writes_of_field(prog, EOF_F, ["actix_multipart"]):
        if bd.file.endswith("test.rs"):
            continue
        ck.ob("C15-c.eof-writer", bd.npath, bd is ps, bd, bb, "PayloadBuffer.eof written only by poll_stream", nontrivial=False)
    sd = prog.one(r"^<actix_multipart::safety::Safety as core::ops::drop::Drop>::drop$")
    wk2 = [bb for bb, t in sd.calls(r"LocalWaker::wake$")]
    ck.ob("C15-c.safety-wakes", sd.npath, bool(wk2) and sd.must_pass([0], sd.returns(), wk2)[0], sd, wk2[0] if wk2 else None, "Safety::drop wakes the registered task on every path")
    sc = prog.one(r"^actix_multipart::safety::Safety::clone$")
    ck.ob("C15-c.safety-registers", sc.npath, any(True for _ in sc.calls(r"LocalWaker::register$")), sc, None, "Safety::clone registers the polling task's waker", nontrivial=False)

    # ---- (d) state machine ---------------------------------------------------
    ST = r"\.actix_multipart::multipart::Inner\.state$"
    ip = prog.one(r"^actix_multipart::multipart::Inner::poll$")
    allowed = {"FirstBoundary": {"Headers", "Eof"}, "Boundary": {"Headers", "Eof"}, "Headers": {"Boundary"}}
    n = 0
    for (bd, bb, s, e) in writes_of_field(prog, ST, ["actix_multipart"]):
        if bd.file.endswith("test.rs"):
            continue
        n += 1
        new = e[2].split("::")[-1] if e[0] == "agg" else None
        # which state arm are we in?
        cur = set()
        for c, lab, a in bd.guards(bb):
            if c[0] == "discr" and e_has_field(c, ST) and isinstance(lab, str):
                cur.add(lab)
            n2 = norm_cmp(c, lab) if isinstance(lab, bool) else None
        if not cur:
            # `if self.state == State::Headers` is a PartialEq call
            for c, lab, a in bd.guards(bb):
                cs = e_calls(strip_not(c)[0], r"PartialEq.*::eq$")
                if cs and e_has_field(cs[0], ST) and lab is True:
                    for k in walk(cs[0]):
                        if k[0] == "agg" and "State::" in (k[2] or ""):
                            cur.add(k[2].split("::")[-1])
        ok = bd is ip and new is not None and bool(cur) and all(new in allowed.get(c, ()) for c in cur)
        if bd is ip and new == "Boundary" and not cur:
            # the unconditional `self.state = State::Boundary` after headers were read
            ok = True
        ck.ob("C15-d.state-transition", "%s->%s" % ("/".join(sorted(cur)) or "?", new), ok, bd, bb, "Inner.state: %s -> %s" % (sorted(cur), new))
    ck.anchor("C15-d", n, 3, "writes of Inner.state")

    # ---- (e) no consumption before need-more ---------------------------------
    CONSUME = r"bytes::bytes_mut::BytesMut::(split_to|split|split_off|advance|clear|truncate)$|Buf>::advance$"
    for f in scanners:
        cons = set(bb for bb, t in f.calls(CONSUME))
        for bb, e in f.ret_exprs():
            names, _ = agg_chain(e)
            if names[:2] == ["core::result::Result::Ok", "core::option::Option::None"]:
                r = f.reach([0], removed=cons)
                ck.ob("C15-e.need-more-pure", f.npath, bb in r and not (f.reach([0]) - r) & {bb}, f, bb, "`Ok(None)` is reached without consuming from the buffer")
    rs = prog.one(r"^actix_multipart::field::InnerField::read_stream$")
    cons = set(bb for bb, t in rs.calls(CONSUME))
    for bb, e in ret_sites(rs, lambda e: is_agg(e, r"Poll::Pending$")):
        # no path to this Pending passes a consuming call
        bad = [c for c in cons if bb in rs.reach([c])]
        ck.ob("C15-e.pending-pure", rs.npath, not bad, rs, bb, "read_stream returns Pending without having consumed buffered bytes")

    # ---- (f) delimiter candidates are never emitted as data --------------------------------
    # BLEN = the Option<usize> variable holding the length of a delimiter candidate at the start of the buffer
    BLEN = set(l for l in user_locals(rs, r"Option<usize>$") if any(any(is_agg(x, r"Option::Some$") and x[3] and x[3][0][0] == "const" for x in walk(rs.def_expr(d, 5))) for d in rs.defs().get(l, [])))
    ck.anchor("C15-f", len(BLEN), 1, "Option<usize> variable with a constant Some(..) definition in read_stream (delimiter-candidate length)")
    blen = edges_where(rs, lambda c, lab: c[0] == "discr" and c[2] == "core::option::Option" and root_is(c, BLEN) and lab == "Some")
    ck.anchor("C15-f", len(blen), 1, "Some edge of the delimiter-candidate test (b_len) in read_stream")
    data_rets = [bb for bb, e in rs.ret_exprs() if agg_chain(e)[0][:3] == ["core::task::poll::Poll::Ready", "core::option::Option::Some", "core::result::Result::Ok"]]
    ck.anchor("C15-f", len(data_rets), 2, "data-emitting returns of read_stream")
    enough = cmp_pred("Lt", lambda e: bool(e_calls(e, r"BytesMut::len$")), lambda e: bool(e_calls(e, r"core::str::len$")), False)
    for a, tb in blen:
        r = rs.reach([tb], removed_edges=edges_where(rs, enough))
        bad = [x for x in data_rets if x in r]
        ck.ob("C15-f.partial-delimiter-waits", "read_stream", bool(edges_where(rs, enough)) and not bad, rs, bad[0] if bad else tb,
              "with a delimiter candidate at the start of the buffer, field data is emitted only after the buffer was found long enough to compare the whole delimiter (else need-more / Incomplete)")
    # the scan resumes at the byte after a CR that did not start a delimiter: a larger step skips a byte that may itself be
    # the CR of the real delimiter (`\r\r\n--boundary`), which is then delivered as field content
    finds = [(bb, t) for bb, t in rs.calls(r"memmem::find$|memchr::memchr$")]
    POS = set()
    for bb, t in finds:
        for x in walk(rs.op_expr(t["args"][0], 6)):
            if is_agg(x, r"RangeFrom$"):
                POS |= set(o[1] for o in x[3] if o[0] in ("var", "phi") and rs.lty(o[1]) == "usize")
    ck.anchor("C15-f", len(POS), 1, "scan position (start of the slice searched for CR) in read_stream")
    for l in sorted(POS):
        for d in rs.defs().get(l, []):
            e = rs.def_expr(d, 6)
            if e[0] == "const":
                continue
            top = e[1] if e[0] == "place" else e
            step = top[3][2] if top[0] == "bin" and top[1] in ("Add", "AddWithOverflow") and top[3][0] == "const" else None
            def from_find(x):
                if e_calls(x, r"memmem::find$|memchr::memchr$"):
                    return True
                for y in walk(x):
                    if y[0] in ("var", "phi") and any(d2[0] == "call" and rx(r"memmem::find$|memchr::memchr$").search(cname(d2[2])) for d2 in rs.defs().get(y[1], [])):
                        return True
                return False
            found = top[0] == "bin" and from_find(top[2])
            ck.ob("C15-f.scan-resumes-at-next-byte", "read_stream|step=%s" % step, step == 1 and bool(found), rs, d[1],
                  "after a CR that does not start a delimiter the search resumes at exactly the next byte (CR position + 1): %s" % short(e, 4))
    # the head check must run for every buffer length in which the scan loop can step over a look-alike at position 0
    head_min = None
    for a in rs.live:
        br = rs.branch(a)
        if not br:
            continue
        n_ = norm_cmp(br[0], True)
        if n_ and e_calls(n_[1], r"BytesMut::len$") and n_[2][0] == "const" and n_[2][2] is not None and n_[2][2] > 0 and any(rs.dominates(a, x) for x, t_ in blen):
            # taken edge towards the candidate computation
            k = n_[2][2]
            # Le(len,k) False -> len >= k+1 ; Lt(len,k) False -> len >= k
            head_min = k + 1 if n_[0] == "Le" else k if n_[0] == "Lt" else None
    scan_k = None
    for a in rs.live:
        br = rs.branch(a)
        if not br:
            continue
        n_ = norm_cmp(br[0], True)
        if n_ and n_[0] == "Le" and e_calls(n_[2], r"BytesMut::len$") and e_bins(n_[1], ("Add", "AddWithOverflow")):
            ks = [c_[2] for c_ in e_consts(n_[1]) if c_[2] is not None and c_[2] > 0]
            if ks:
                scan_k = max(ks)
    ck.ob("C15-f.head-check-covers-scan", "read_stream", head_min is not None and scan_k is not None and head_min <= scan_k, rs, None,
          "the delimiter-candidate check at the start of the buffer runs for every buffer length (>= %s) at which the scan loop (needs cur + %s <= len) could otherwise step over a look-alike at position 0" % (head_min, scan_k))
    grammar_rules(ck, prog)

    # ---- (g) every header line of a part is delivered: the part's header map is filled with append, never with the
    # replacing insert (a repeated name keeps all its values, and get() keeps answering with the first) ---------------
    for hb in prog.find(r"^actix_multipart::multipart::Inner::read_field_headers$"):
        adds = [(bb, cname(t).split("::")[-1]) for bb, t in hb.calls(r"header::map::HeaderMap::(append|insert|extend)$|HeaderMap as core::iter::traits::collect::(Extend|FromIterator)")]
        ck.anchor("C15-g", len(adds), 1, "writes to the part's HeaderMap in read_field_headers")
        bad = [(bb, m) for bb, m in adds if m == "insert"]
        ck.ob("C15-g.part-headers-all-kept", "read_field_headers", bool(adds) and not bad, hb, (bad or adds or [(None, None)])[0][0],
              "parsed header lines are added to the part's header map with append (insert would replace the earlier value of a repeated name)")


def grammar_rules(ck, prog):
    """(g) exactness of the delimiter line and of the switch to the next field"""
    rb = prog.one(r"^actix_multipart::multipart::Inner::read_boundary$")
    LITS = {"\r\n", "--", "--\r\n"}
    def eq_lit(c, lab):
        bt = bool_test(c, lab)
        if not bt or bt[1] is not True:
            return False
        e = bt[0]
        if not (e[0] == "call" and rx(r"PartialEq.*::eq$").search(e[1] or "")):
            return False
        lits = [k for k in e_consts(e) if k[3] in LITS] + [k for k in e_consts(e) if k[1] and rx(r"(LINE_BREAK|BOUNDARY_MARKER)$").search(k[1])]
        return bool(lits)
    decided = [(bb, e) for bb, e in rb.ret_exprs() if is_agg(e, r"Result::Ok$") and e[3] and is_agg(e[3][0], r"Option::Some$") and e[3][0][3] and e[3][0][3][0][0] == "const"]
    ck.anchor("C15-g", len(decided), 2, "Ok(Some(true/false)) returns of read_boundary")
    for bb, e in decided:
        ok, wit = guarded_by(rb, bb, eq_lit)
        ck.ob("C15-g.delimiter-remainder-exact", "read_boundary|%s" % ("last" if e[3][0][3][0][2] == 1 else "more"), ok, rb, bb,
              "what follows `--boundary` on the delimiter line is compared for EQUALITY with CRLF / `--` / `--CRLF` (a prefix test accepts `--boundary--junk` as the end of the body and silently drops the rest)", witness=rb.path_lines(wit))
    # the current field is forgotten only when it has ended: a Pending of the field keeps it current
    ip = prog.one(r"^actix_multipart::multipart::Inner::poll$")
    drops = [bb for bb, i, s in ip.assigns() if any(isinstance(x, str) and x.endswith("Inner.item") for x in s["p"][1:]) and is_agg(ip.rv_expr(s["rv"], 3), r"Item::None$")]
    ck.anchor("C15-g", len(drops), 1, "self.item = Item::None in Inner::poll")
    ended = lambda c, lab: c[0] == "discr" and bool(e_calls(c, r"InnerField::poll$")) and lab == "None"
    for bb in drops:
        ok, wit = guarded_by(ip, bb, ended)
        if not ok and any(ended(c, lab) for c, lab, a in ip.guards(bb)):
            ok, wit = True, None  # established through a boolean temporary (`let stop = match .. { Ready(None) => true, .. }; if stop`)
        ck.ob("C15-g.field-released-only-when-ended", "Inner::poll", ok, ip, bb,
              "the field being skipped is forgotten only on the edge where polling it returned Ready(None): on Pending it stays current, otherwise the rest of its content is parsed as a delimiter line", witness=ip.path_lines(wit))
