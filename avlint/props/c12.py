"""C12 — body extractors never accept or buffer more than their limit."""
import os

from ..rules import *  # noqa

EXPLANATION = (
    "Collector query over the resolved program: every call that appends stream chunks to a buffer that outlives the loop "
    "iteration (BytesMut::extend_from_slice / Extend::extend / write_all to a file) in the extractor code of actix-web "
    "(bytes/string, JSON, url-encoded form), actix-http body::to_bytes_limited and actix-multipart (Field::bytes, form "
    "Bytes/TempFile readers, to which Text and Json delegate). Each append must be justified on every path by one of the "
    "two guard idioms this code base uses: (i) the passing edge of `acc.len() + chunk.len() > limit` whose left side "
    "measures the very accumulator being appended to and the very chunk being appended, where the overflow edge either "
    "returns the overflow error or sets a sticky flag that is never reset, guards the append, and selects the error at "
    "the end; (ii) the Ok edge of Limits::try_consume_limits(chunk.len(), _), whose own body updates every remaining "
    "budget only through checked_sub(bytes) with the None edge returning PayloadError::Overflow. Delegations "
    "(Payload::to_bytes_limited -> body::to_bytes_limited, Text/Json -> Bytes::read_field, to_bytes -> unlimited by "
    "contract) are checked as call-graph facts with the limit argument traced to the caller's parameter. With "
    "compression support the extractors read through Decompress<Payload>, so the limit applies to decoded bytes. A "
    "declared Content-Length may reject early but no accepting path skips the per-chunk guard. Decompression bombs "
    "inside one chunk are the 'limit plus one chunk' allowance of the statement."
)
RULES = "guarded-site (edge-set) per append site with operand-identity slices; sticky-flag discipline; callee summary for the budget call; type-level fact for Decompress."

FILES = (
    "actix-web/src/types/payload.rs", "actix-web/src/types/json.rs", "actix-web/src/types/form.rs",
    "actix-http/src/body/utils.rs", "actix-multipart/src/field.rs", "actix-multipart/src/form/bytes.rs",
    "actix-multipart/src/form/tempfile.rs", "actix-multipart/src/form/text.rs", "actix-multipart/src/form/json.rs", "actix-multipart/src/form/mod.rs",
)
APPEND = r"BytesMut::extend_from_slice$|bytes::bytes_mut::BytesMut as core::iter::traits::collect::Extend<.*>>::extend$|Vec.*::extend_from_slice$|AsyncWriteExt::write_all$|String::push_str$"


def lens_of(e):
    """(callee, arg-expression) of every len()/remaining() call in e"""
    return [(c[1], c[2][0] if c[2] else None) for c in e_calls(e, r"::len$|Buf::remaining$")]


def core_expr(e):
    """strip borrow-like wrappers: Deref::deref(x), AsRef::as_ref(x), x.clone(), &x[..]"""
    while isinstance(e, tuple):
        if e[0] == "call" and e[2] and rx(r"Deref>::deref$|Deref::deref$|AsRef.*::as_ref$|Borrow.*::borrow$|Clone>::clone$|Clone::clone$|Index.*::index$").search(e[1] or ""):
            e = e[2][0]
        elif e[0] == "cast":
            e = e[1]
        else:
            break
    return e


def ident(e):
    """identity of a value independent of how deeply its inputs were expanded:
    a call is identified by callee + call site, a local by its index"""
    if not isinstance(e, tuple):
        return None
    if e[0] == "place":
        b_ = ident(e[1])
        return None if b_ is None else ("place", b_, e[2])
    if e[0] == "call":
        return ("call", e[1], e[3])
    if e[0] in ("arg", "var", "phi"):
        return ("local", e[1])
    return None


def configured_limit(b, rhs, prog=None, depth=3):
    """the bound of the comparison is the configured limit itself: a field of the extractor / its config, a
    parameter, or a captured variable that is one of those in the enclosing frame — not a value that some path
    replaces by a constant (e.g. usize::MAX when a Content-Length was declared) and not a computed one"""
    e = rhs
    while isinstance(e, tuple) and e[0] == "cast":
        e = e[1]
    if e[0] == "arg":
        return True
    if e[0] == "place":
        if any(x[0] == "const" for x in walk(e)) or e_bins(e) or any(x[0] == "phi" for x in walk(e)):
            return False
        ups = [p_ for p_ in e[2] if isinstance(p_, str) and p_.startswith(".^")]
        if ups and prog is not None and depth > 0:
            r = prog.upvar(b, ups[0])
            if r is None:
                return False
            return configured_limit(r[0], r[1], prog, depth - 1)
        return True
    return False


def same_root(b, e1, op):
    """does expression e1 denote the same object as operand `op`?"""
    e2 = core_expr(b.op_expr(op))
    e1 = core_expr(e1)
    if canon(e1, 8) == canon(e2, 8) or (ident(e1) is not None and ident(e1) == ident(e2)):
        return True
    bl = base_local(b, op)
    if bl is not None and b.locals[bl]["k"] in ("arg", "var"):
        for r in e_roots(e1):
            if r[0] in ("arg", "var", "phi") and r[1] == bl:
                return True
    f1 = [p for x in walk(e1) if x[0] == "place" for p in x[2] if isinstance(p, str) and p.startswith(".")]
    f2 = [p for x in walk(e2) if x[0] == "place" for p in x[2] if isinstance(p, str) and p.startswith(".")]
    return bool(f1) and bool(f2) and f1[-1] == f2[-1] and (f1[-1].startswith(".^") or not f1[-1][1:2].isdigit())


def run(ck, prog, tier, load):
    sites = []
    for b in prog.bodies.values():
        if not b.file.endswith(FILES) or "::tests::" in b.npath or "::test::" in b.npath:
            continue
        for bb, t in b.calls(APPEND):
            if is_noise(b, bb):
                continue
            sites.append((b, bb, t))
    ck.anchor("C12-a", len(sites), 4, "append-to-accumulator sites in the extractor code")

    tcl = prog.one(r"^actix_multipart::form::Limits::try_consume_limits$")
    n_ok = 0
    for b, bb, t in sorted(sites, key=lambda x: (x[0].path, x[1])):
        acc_op, chunk_op = t["args"][0], t["args"][1]
        fn = b.npath
        key = "%s" % fn.replace("actix_", "")
        # idiom (ii): budget call
        budget = [d for d in b.dominators(bb) if is_call(b.term(d), r"form::Limits::try_consume_limits$")]
        if budget:
            bt = b.term(budget[0])
            amt = b.op_expr(bt["args"][1])
            ok_amt = any(a is not None and same_root(b, a, chunk_op) for n_, a in lens_of(amt))
            ok_edge = any(c[0] == "discr" and e_calls(c, r"try_consume_limits$") and l in ("Continue", "Ok") for c, l, a in b.guards(bb))
            ck.ob("C12-a.append-guarded", key + "|budget", ok_amt and ok_edge, b, bb, "append dominated by the Ok edge of Limits::try_consume_limits(chunk.len(), _) (amount is this chunk's length: %s)" % ok_amt)
            n_ok += 1
            continue
        # idiom (i): explicit comparison
        def lim_pred(c, lab):
            n = norm_cmp(c, lab) if isinstance(lab, bool) else None
            if not n or n[0] != "Le" or n[3] is not True:
                return False
            lhs, rhs = n[1], n[2]
            adds = e_bins(lhs, ("Add", "AddWithOverflow"))
            if not adds:
                return False
            ls = lens_of(lhs)
            has_acc = any(a is not None and same_root(b, a, acc_op) for n_, a in ls)
            has_chunk = any(a is not None and same_root(b, a, chunk_op) for n_, a in ls)
            if has_acc and has_chunk and not lens_of(rhs):
                seen_rhs.append(rhs)
                return configured_limit(b, rhs, prog)
            return False
        seen_rhs = []
        ok, wit = guarded_by(b, bb, lim_pred)
        if os.environ.get("AVLINT_C12_RHS"):
            print("C12 rhs:", fn, [short(x, 4) for x in seen_rhs][:2], [x[0] for x in seen_rhs][:2])
        detail = "append dominated by the passing edge of `acc.len() + chunk.len() > limit` measuring this accumulator and this chunk"
        if ok:
            # overflow edge discipline
            over = edges_where(b, lambda c, lab: (lambda n: bool(n and n[0] == "Le" and n[3] is False and e_bins(n[1], ("Add", "AddWithOverflow")) and len(lens_of(n[1])) >= 2))(norm_cmp(c, lab) if isinstance(lab, bool) else None))
            good_over = True
            for a, tb in over:
                # from the overflow edge: either every path returns (no way back to the append) or a sticky flag protocol
                back = bb in b.reach([tb])
                if not back:
                    continue
                flags = sticky_flags(b, tb)
                fl_ok = False
                # the flag may live in the enclosing frame (captured by reference)
                up = {x for b2, i2, s2 in b.assigns() for x in s2["p"][1:] if isinstance(x, str) and x.startswith(".^") and b.dominates(tb, b2) and b.rv_expr(s2["rv"], 2)[:3] == ("const", None, 1)}
                for u in up:
                    def up_false(c, lab, u=u):
                        c2, tr = strip_not(c, True)
                        return isinstance(lab, bool) and c2[0] == "place" and u in c2[2] and (lab if tr else not lab) is False
                    g_app = guarded_by(b, bb, up_false)[0]
                    writes = [b.rv_expr(s2["rv"], 2) for b2, i2, s2 in b.assigns() if u in s2["p"][1:]]
                    fl_ok = fl_ok or (g_app and all(w[:3] == ("const", None, 1) for w in writes))
                for fl in flags:
                    g_app = guarded_by(b, bb, var_is(b, fl, False))[0]
                    resets = [d for d in b.defs().get(fl, []) if not (d[0] == "=" and d[3]["k"] == "use" and d[3]["ops"][0].get("const", {}).get("int") == 1)]
                    # a reset is acceptable only as the initialisation that dominates the loop
                    only_init = all(d[0] == "=" and d[3]["k"] == "use" and d[3]["ops"][0].get("const", {}).get("int") == 0 and b.dominates(d[1], a) and d[1] not in b.reach(b.succ[a]) for d in resets)
                    fl_ok = fl_ok or (g_app and only_init)
                good_over = good_over and fl_ok
            ok = ok and good_over
            if not good_over:
                detail = "the overflow edge flows back to the append without a sticky never-reset flag guarding it"
        ck.ob("C12-a.append-guarded", key + "|compare", ok, b, bb, detail, witness=b.path_lines(wit))
        n_ok += 1

    # ---- sticky flags of closures (upvar flags) --------------------------------------
    for pat in (r"^actix_http::body::utils::to_bytes_limited::\{closure#0\}", r"^actix_multipart::field::Field::bytes::\{closure#0\}"):
        outer = [b for b in prog.find(pat) if b.d.get("ck") in ("async", "coroutine", None) and b.npath.count("{closure") == 1]
        if not outer:
            raise AnchorLost("collector %s not found" % pat)
        o = outer[0]
        inner = [c for c in prog.with_closures(o) if c is not o and any(True for _ in c.calls(APPEND))]
        ck.anchor("C12-a", len(inner), 1, "poll_fn closure with the append in %s" % o.npath)
        for c in inner:
            app = [bb for bb, t in c.calls(APPEND)]
            # the overflow flag: a bool variable of the outer future, captured by the poll_fn closure and written there
            def flag_proj(x):
                if not (isinstance(x, str) and x.startswith(".^")):
                    return None
                up = prog.upvar(c, x)
                if up and up[0] is o and up[1][0] in ("var", "phi") and o.lty(up[1][1]) == "bool":
                    return up[1][1]
                # captured by reference: the operand is `&mut flag`
                if up and up[0] is o:
                    bl = [r[1] for r in e_roots(up[1]) if r[0] in ("var", "phi") and o.lty(r[1]) == "bool"]
                    return bl[0] if bl else None
                return None
            fw = [(bb, s, [flag_proj(x) for x in s["p"][1:] if flag_proj(x) is not None]) for bb, i, s in c.assigns()]
            fw = [(bb, s, ls) for bb, s, ls in fw if ls]
            FL = set(l for bb, s, ls in fw for l in ls)
            FLP = set(x.split(":")[0] for bb, s, ls in fw for x in s["p"][1:] if isinstance(x, str) and x.startswith(".^") and flag_proj(x) is not None)
            only_true = all(c.rv_expr(s["rv"], 3)[:3] == ("const", None, 1) for bb, s, ls in fw)
            ck.ob("C12-a.sticky-flag", o.npath.split("::")[-2] + "|set-only", bool(fw) and only_true, c, fw[0][0] if fw else None, "the overflow flag is only ever set to true inside the collecting loop (never recomputed or cleared)")
            # the Ok result of the outer future is guarded by the flag being false
            lim_err = [bb for bb, e in o.ret_exprs() if any(is_agg(x, r"(BodyLimitExceeded|LimitExceeded)$") for x in walk(e))]
            pf = [x for x, t2 in o.calls(r"poll_fn::poll_fn$")]
            oks = [bb for bb, e in o.ret_exprs() if agg_chain(e)[0][:2] == ["core::result::Result::Ok", "core::result::Result::Ok"] and any(o.dominates(x, bb) for x in pf)]
            g = bool(FL) and all(guarded_by(o, bb, lambda cc, lab: bool(bool_test(cc, lab)) and is_local(bool_test(cc, lab)[0], FL) and bool_test(cc, lab)[1] is False)[0] for bb in oks) and bool(oks) and bool(lim_err)
            ck.ob("C12-a.sticky-flag", o.npath.split("::")[-2] + "|selects-error", g, o, oks[0] if oks else None, "the collected bytes are returned only with the overflow flag false; otherwise the limit error")
            # once exceeded, nothing is appended any more (Field::bytes keeps draining): append guarded by flag false or loop left
            for bb in app:
                leaves = all(c.reach([x]) & set(app) == set() for x, s, ls in fw)
                gflag = guarded_by(c, bb, lambda cc, lab: isinstance(lab, bool) and any(isinstance(p, str) and p.split(":")[0] in FLP for y in walk(strip_not(cc)[0]) if y[0] == "place" for p in y[2]) and (lab if strip_not(cc)[1] else not lab) is False)[0]
                ck.ob("C12-a.sticky-flag", o.npath.split("::")[-2] + "|no-append-after-overflow", leaves or gflag, c, bb, "after the flag is set no further chunk is appended (loop left: %s; append guarded by !flag: %s)" % (leaves, gflag))

    # ---- budget call body ---------------------------------------------------------------
    cs = [bb for bb, t in tcl.calls(r"checked_sub$")]
    ck.anchor("C12-a", len(cs), 2, "checked_sub in Limits::try_consume_limits")
    LF = r"\.actix_multipart::form::Limits\."
    for (bd, bb, s, e) in writes_of_field(prog, LF + r"(total_limit_remaining|memory_limit_remaining|field_limit_remaining)$", ["actix_multipart"]):
        if bd is not tcl:
            if "::tests::" in bd.npath or bd.npath.endswith("Limits::new"):
                continue
            ck.ob("C12-a.budget-writer", bd.npath, False, bd, bb, "remaining budget written outside try_consume_limits/new: %s" % bd.npath)
            continue
        ok = bool(e_calls(e, r"checked_sub$")) and any(root_is(c, args_of_type(tcl, r"^usize$")) for c in e_calls(e, r"checked_sub$"))
        fld = [x for x in s["p"][1:] if isinstance(x, str)][-1].rsplit(".", 1)[-1]
        ck.ob("C12-a.budget-update", fld, ok, tcl, bb, "Limits.%s is updated only as remaining.checked_sub(bytes)" % fld)
    errs = [bb for bb, e in tcl.ret_exprs() if e[0] == "call" and rx("from_residual").search(e[1] or "")]
    ov = any(is_agg(x, r"PayloadError::Overflow$") for bb, i, s in tcl.assigns() for x in walk(tcl.rv_expr(s["rv"], 4)))
    ck.ob("C12-a.budget-overflow-error", "try_consume_limits", len(errs) >= 3 and ov, tcl, errs[0] if errs else None, "each exhausted budget returns PayloadError::Overflow (%d error exits)" % len(errs))

    # ---- delegations -----------------------------------------------------------------------
    wp = prog.find(r"^actix_web::types::payload::Payload::to_bytes_limited")
    ok = False
    for b in wp:
        for c in prog.with_closures(b):
            for bb, t in c.calls(r"actix_http::body::utils::to_bytes_limited$"):
                lim = c.op_expr(t["args"][1])
                if e_bins(lim) or e_calls(lim):
                    continue  # the limit must be handed through unchanged
                lim_args = set(args_of_type(b, r"^usize$"))
                direct = c is b and any(r[0] == "arg" and r[1] in lim_args for r in e_roots(lim))
                via_up = False
                for x in walk(lim):
                    if x[0] == "place":
                        for p_ in x[2]:
                            up = prog.upvar(c, p_) if isinstance(p_, str) and p_.startswith(".^") else None
                            if up and up[0] is b and up[1][0] == "arg" and up[1][1] in lim_args:
                                via_up = True
                ok = ok or direct or via_up
    ck.ob("C12-a.delegation", "web::Payload::to_bytes_limited", ok, wp[0] if wp else None, None, "delegates to body::to_bytes_limited passing its own `limit` through unchanged")
    for nm in ("text::Text", "json::Json"):
        bs = [b for b in prog.find(r"actix_multipart::form::%s<T> as actix_multipart::form::FieldReader<'t>>::read_field" % nm)]
        ok = any(any(True for _ in c.calls(r"form::bytes::Bytes as actix_multipart::form::FieldReader<'t>>::read_field$|FieldReader.*read_field$")) for b in bs for c in prog.with_closures(b))
        ck.ob("C12-a.delegation", "multipart " + nm, ok, bs[0] if bs else None, None, "%s::read_field collects through Bytes::read_field (budgeted)" % nm)
    tb = prog.find(r"^actix_http::body::utils::to_bytes$")
    ok = any(any(True for _ in c.calls(r"body::utils::to_bytes_limited$")) for b in tb for c in prog.with_closures(b))
    ck.ob("C12-a.delegation", "body::to_bytes", ok, tb[0] if tb else None, None, "to_bytes (unlimited by contract) is to_bytes_limited(usize::MAX)", nontrivial=False)

    # ---- (b) the limit applies to decoded bytes -------------------------------------------------
    for adt, fld in (("actix_web::types::payload::HttpMessageBody", "stream"), ("actix_web::types::json::JsonBody", "payload"), ("actix_web::types::form::UrlEncoded", "stream")):
        a = prog.adts.get(adt)
        tys = [f["ty"] for v in (a or {}).get("variants", []) for f in v["fields"] if f["n"] == fld]
        compress = "__compress" in (prog.manifests.get("actix_web", {}).get("features") or [])
        if compress:
            ok = bool(tys) and all("Decompress" in ty or "Decoder" in ty for ty in tys)
            ck.ob("C12-b.decoded-stream", adt.split("::")[-1], ok, None, None, "%s.%s : %s (reads the content-decoded stream, so the limit counts decoded bytes)" % (adt.split("::")[-1], fld, tys), nontrivial=False)
        else:
            # built without any compress-* feature there is no content decoding at all: the extractor reads the payload as sent
            ck.ob("C12-b.decoded-stream", adt.split("::")[-1], bool(tys), None, None, "%s.%s : %s (no compress-* feature in this configuration: no content decoding exists, the limit counts the bytes as sent)" % (adt.split("::")[-1], fld, tys), nontrivial=False)
    feats = prog.manifests.get("actix_web", {}).get("features", [])
    ck.note("actix_web features in this extraction: %s" % feats)

    # Readlines: where a line end was found, the length compared with the limit covers at least the bytes taken for the line
    # (`split_to(n)`): comparing one byte less lets a line of limit + 1 bytes through in that branch only, so the outcome
    # depends on how the body was chunked
    def linear(e):
        """e as {atom: coeff} with '1' for the constant part; None if not a sum"""
        e2 = e
        while isinstance(e2, tuple) and e2[0] == "cast":
            e2 = e2[1]
        if e2[0] == "const" and isinstance(e2[2], int):
            return {"1": e2[2]}
        if e2[0] == "place" and e2[1][0] == "bin" and e2[1][1] in ("Add", "AddWithOverflow") and e2[2] == (".0",):
            a, b_ = linear(e2[1][2]), linear(e2[1][3])
            if a is None or b_ is None:
                return None
            out = dict(a)
            for k, v in b_.items():
                out[k] = out.get(k, 0) + v
            return out
        if e2[0] == "bin" and e2[1] in ("Add", "AddWithOverflow"):
            a, b_ = linear(e2[2]), linear(e2[3])
            if a is None or b_ is None:
                return None
            out = dict(a)
            for k, v in b_.items():
                out[k] = out.get(k, 0) + v
            return out
        return {canon(e2, 5): 1}
    for rb in prog.find(r"^<actix_web::types::readlines::Readlines<T> as futures_core::stream::Stream>::poll_next$"):
        n_rl = 0
        for bb, e in rb.ret_exprs():
            if not any(is_agg(x, r"ReadlinesError::LimitOverflow$") for x in walk(e)):
                continue
            cmps = []
            for c, lab, a in rb.guards(bb):
                n = norm_cmp(c, lab) if isinstance(lab, bool) else None
                if n and n[0] in ("Le", "Lt") and (e_has_field(n[1], r"\.limit$") or e_has_field(n[2], r"\.limit$")):
                    cmps.append((a, n[2] if e_has_field(n[1], r"\.limit$") else n[1]))
            if not cmps:
                continue
            a_blk, val = cmps[0]
            # the line produced on the other edge of that comparison
            takes = [(b2, rb.op_expr(t["args"][1], 6)) for b2, t in rb.calls(r"BytesMut::split_to$|Bytes::split_to$") if rb.dominates(a_blk, b2) and not rb.dominates(bb, b2)]
            if not takes:
                continue   # end-of-stream branch: the whole buffer is the line, compared as buf.len()
            n_rl += 1
            lv = linear(val)
            ok = lv is not None
            for b2, tk in takes[:1]:
                lt = linear(tk)
                ok = ok and lt is not None and all(lv.get(k, 0) >= v for k, v in lt.items())
            ck.ob("C12-c.readlines-bound-covers-line", "Readlines::poll_next|line %d" % n_rl, ok, rb, bb, "the length tested against the limit (%s) is at least the number of bytes split off as the line (%s)" % (short(val, 4), short(takes[0][1], 4)))
        ck.anchor("C12-c", n_rl, 2, "newline-found branches of Readlines::poll_next with a limit test")
    # multipart forms: a part that is ignored is still read through discard_field, which charges it to the form's Limits
    n_ig = 0
    for hb in prog.find(r"actix_multipart::form::FieldGroupReader<'t>>::handle_field$"):
        edges = edges_where(hb, lambda c, lab: c[0] == "discr" and (c[2] or "").endswith("DuplicateField") and lab == "Ignore")
        for a, tb in edges:
            n_ig += 1
            drains = []
            for bb, i, s_ in hb.assigns():
                rv = s_["rv"]
                if rv["k"] == "agg" and rv.get("ak") in ("closure", "coroutine"):
                    cb2 = prog.bodies.get(rv.get("def")) or next((x for x in prog.bodies.values() if x.npath == norm(rv.get("def"))), None)
                    if cb2 is not None and any(True for c_ in prog.with_closures(cb2) for _ in c_.calls(r"form::discard_field$")):
                        drains.append(bb)
            drains += [bb for bb, t in hb.calls(r"form::discard_field$")]
            ok = bool(drains) and hb.must_pass([tb], hb.returns(), drains)[0]
            ck.ob("C12-c.ignored-part-is-drained", "::".join(hb.npath.split("::")[-3:])[:60], ok, hb, tb, "an ignored duplicate part is consumed through discard_field(field, limits) (its bytes count against the form's limits) before Ok is returned")
    ck.anchor("C12-c", n_ig, 1, "DuplicateField::Ignore arms in FieldGroupReader::handle_field")


def var_is(b, local, val, name=None):
    def p(c, lab):
        c2, tr = strip_not(c, True)
        if not isinstance(lab, bool):
            return False
        hit = (c2[0] in ("var", "phi", "arg") and ((local is not None and c2[1] == local) or (name is not None and c2[2] == name)))
        return hit and (lab if tr else not lab) is val
    return p


def sticky_flags(b, start):
    """bool locals assigned `true` in the region dominated by `start`"""
    out = []
    for l, ds in b.defs().items():
        if isinstance(l, tuple):
            continue
        if b.lty(l) != "bool":
            continue
        for d in ds:
            if d[0] == "=" and d[3]["k"] == "use" and d[3]["ops"][0].get("const", {}).get("int") == 1 and b.dominates(start, d[1]):
                out.append(l)
    return out
