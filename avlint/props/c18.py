"""C18 — HeaderMap as an order-preserving multimap: representation invariants."""
from ..rules import *  # noqa

EXPLANATION = (
    "Representation invariants of actix_http::header::map decided over the resolved program (the refinement to a "
    "reference multimap is a value-level fact and is not decided): (a) value lists are never empty — Value is built only "
    "by Value::one with one element, the only operations applied to Value.inner are push (Value::append), retain (only "
    "inside HeaderMap::retain, whose per-entry closure returns !vals.is_empty() so emptied entries are dropped), "
    "indexing at 0, into_iter and read-only accessors; nothing outside header/map.rs mutates HeaderMap.inner; (b) order — "
    "no operation on a value list can reorder it (no insert/swap/sort/reverse/pop/remove), append pushes at the end; "
    "(c) iterator accounting — in Iter/Drain/IntoIter::next every returned element passes exactly one `remaining -= 1`, "
    "size_hint is (remaining, Some(remaining)), every iterator is constructed with HeaderMap::len() of the same map, "
    "evaluated before the map is drained; len() sums the value-list lengths; (d) case-insensitivity — every string-like "
    "AsHeaderName impl goes through HeaderName::from_str (which lower-cases) and lookups resolve through try_as_name; "
    "(e) From<http::HeaderMap> reuses the previous name for entries without one."
)
RULES = "field effect sets on Value.inner / HeaderMap.inner, must-pass-through for the per-element counter, constructor-site census, callee checks."

VI = r"\.actix_http::header::map::Value\.inner$"
HI = r"\.actix_http::header::map::HeaderMap\.inner$"
SV_READ = {"deref", "len", "is_empty", "iter", "get", "index", "first", "last", "as_slice", "as_ref", "clone", "fmt", "into_iter", "size_hint", "eq"}
SV_OK_MUT = {"push": "Value::append", "retain": "HeaderMap::retain", "index_mut": "Value::first_mut", "deref_mut": "Value::first_mut"}
REORDER = {"insert", "swap", "swap_remove", "sort", "sort_by", "sort_unstable", "reverse", "pop", "remove", "truncate", "clear", "drain", "dedup", "rotate_left", "rotate_right", "insert_many", "extend", "append", "resize"}


def run(ck, prog, tier, load):
    # ---- (a)/(b) effects on value lists ---------------------------------------------
    n = 0
    for b, bb, t, m in method_calls_on_field(prog, VI, ["actix_http"]):
        if "::tests::" in b.npath:
            continue
        n += 1
        owner = b.npath
        if m in SV_READ:
            continue
        if m in SV_OK_MUT:
            ok = SV_OK_MUT[m].split("::")[-1] in owner and SV_OK_MUT[m].split("::")[0] in owner
            ck.ob("C18-a.value-list-effect", "%s|%s" % (owner.split("header::map::")[-1], m), ok, b, bb, "Value.inner.%s in %s (allowed only in %s)" % (m, owner, SV_OK_MUT[m]))
        elif m in REORDER:
            ck.ob("C18-b.no-reorder", "%s|%s" % (owner.split("header::map::")[-1], m), False, b, bb, "operation %s on a header value list can reorder or empty it" % m)
        else:
            ck.ob("C18-a.value-list-effect", "%s|%s" % (owner.split("header::map::")[-1], m), False, b, bb, "unclassified operation %s on Value.inner in %s" % (m, owner))
    ck.anchor("C18-a", n, 3, "method calls on Value.inner")
    # value lists that were moved out of the map (Drain / IntoIter / Removed) keep their order too
    n_sv = 0
    for b in prog.in_file("actix-http/src/header/map.rs"):
        if "::tests::" in b.npath:
            continue
        for bb, t in b.calls(r"^smallvec::SmallVec::"):
            if not t["args"]:
                continue
            a0 = t["args"][0]
            pl = a0.get("copy") or a0.get("move")
            ty = b.lty(pl[0]) if pl else ""
            if "HeaderValue" not in ty and "HeaderValue" not in str(t["fn"].get("selfty", "")) + str(t["fn"].get("resself", "")):
                continue
            m = cname(t).split("::")[-1]
            n_sv += 1
            if m not in REORDER:
                continue
            if m == "remove":
                k = b.op_expr(t["args"][1])
                ok = k[:3] == ("const", None, 0)
                ck.ob("C18-b.no-reorder", "%s|remove(%s)" % (b.npath.split("header::map::")[-1], k[2]), ok, b, bb, "SmallVec::remove on a header value list is order-preserving only at index 0 (got %s)" % short(k))
            elif m in ("push",):
                pass
            else:
                ck.ob("C18-b.no-reorder", "%s|%s" % (b.npath.split("header::map::")[-1], m), False, b, bb, "SmallVec::%s on a header value list does not preserve the insertion order of the remaining values" % m)
    ck.anchor("C18-b", n_sv, 2, "SmallVec<HeaderValue> method calls in header/map.rs")
    # Value constructed only in Value::one
    for b in prog.bodies.values():
        if b.crate != "actix_http":
            continue
        for bb, i, s in b.assigns():
            if s["rv"]["k"] == "agg" and s["rv"].get("adt") == "actix_http::header::map::Value":
                ck.ob("C18-a.value-ctor", b.npath.split("header::map::")[-1], b.npath.endswith("map::Value::one") or "::tests::" in b.npath or b.npath.endswith("Clone>::clone"), b, bb, "Value constructed in %s (only Value::one, with one element)" % b.npath, nontrivial=False)
    one = prog.one(r"^actix_http::header::map::Value::one$")
    ok = any(True for _ in one.calls(r"SmallVec.*::push$|smallvec::.*from_buf|SmallVec.*::from_|smallvec::SmallVec<A>::push$")) or any(any(r[0] == "arg" for r in e_roots(one.rv_expr(s["rv"], 5))) for bb, i, s in one.assigns())
    ck.ob("C18-a.one-is-nonempty", "Value::one", ok, one, None, "Value::one stores its argument (a one-element list)")
    # retain closure
    rt = prog.one(r"^actix_http::header::map::HeaderMap::retain$")
    clos = [c for c in prog.with_closures(rt) if c is not rt and any(True for _ in c.calls(r"SmallVec.*::retain$"))]
    ck.anchor("C18-a", len(clos), 1, "per-entry closure of HeaderMap::retain")
    for c in clos:
        ok = False
        for bb, e in c.ret_exprs():
            e2, tr = strip_not(e, True)
            if e2[0] == "call" and rx(r"is_empty$").search(e2[1] or "") and tr is False:
                ok = True
        ck.ob("C18-a.retain-drops-empty", "HeaderMap::retain", ok, c, None, "the per-entry closure keeps an entry exactly when its value list is still non-empty (returns !vals.is_empty())")
    # HeaderMap.inner mutation only inside map.rs
    for b, bb, kind, s in prog.field_effects(HI, ["actix_http", "actix_web", "awc", "actix_multipart", "actix_files"]):
        ok = b.file.endswith("header/map.rs")
        ck.ob("C18-a.map-mutated-only-in-module", "%s|%s" % (b.npath, kind), ok, b, bb, "%s of HeaderMap.inner in %s" % (kind, b.npath), nontrivial=False)
    hm_mut = [(b, bb, t, m) for b, bb, t, m in method_calls_on_field(prog, HI, None) if m in ("insert", "remove", "entry", "retain", "drain", "clear", "reserve", "get_mut", "iter_mut", "values_mut")]
    ck.anchor("C18-a", len(hm_mut), 3, "mutating calls on HeaderMap.inner")
    for b, bb, t, m in hm_mut:
        ck.ob("C18-a.map-mutated-only-in-module", "%s|%s" % (b.npath.split("::")[-1], m), b.file.endswith("header/map.rs"), b, bb, "HeaderMap.inner.%s in %s" % (m, b.npath), nontrivial=False)
    # append: Occupied -> Value::append ; Vacant -> Value::one
    ap = prog.one(r"^actix_http::header::map::HeaderMap::append$")
    occ = [bb for bb, t in ap.calls(r"map::Value::append$")]
    vac = [bb for bb, t in ap.calls(r"map::Value::one$")]
    LOOKUP = r"HashMap.*::(get_mut|get)$"

    def present(c, lab):
        if c[0] == "discr" and lab == "Occupied":
            return True
        if c[0] == "discr" and lab == "Some" and e_calls(c, LOOKUP):
            return True
        bt = bool_test(c, lab)
        return bool(bt) and bt[0][0] == "call" and rx(r"HashMap.*::contains_key$").search(bt[0][1] or "") is not None and bt[1] is True

    def absent(c, lab):
        if c[0] == "discr" and lab == "Vacant":
            return True
        if c[0] == "discr" and lab == "None" and e_calls(c, LOOKUP):
            return True
        bt = bool_test(c, lab)
        return bool(bt) and bt[0][0] == "call" and rx(r"HashMap.*::contains_key$").search(bt[0][1] or "") is not None and bt[1] is False
    ok = bool(occ) and bool(vac) and any(present(c, lab) for c, lab, a in ap.guards(occ[0])) and any(absent(c, lab) for c, lab, a in ap.guards(vac[0]))
    ck.ob("C18-b.append-extends", "HeaderMap::append", ok, ap, occ[0] if occ else None, "append pushes onto the existing list (Occupied) or creates a one-element list (Vacant)")
    ins = prog.one(r"^actix_http::header::map::HeaderMap::insert$")
    ok = any(True for _ in ins.calls(r"map::Value::one$")) and any(True for _ in ins.calls(r"HashMap.*::insert$")) and any(True for _ in ins.calls(r"map::Removed::new$"))
    ck.ob("C18-b.insert-replaces", "HeaderMap::insert", ok, ins, None, "insert replaces the whole list by a one-element list and hands the old values to Removed")

    # ---- (c) iterator accounting -------------------------------------------------------
    for ty in ("Iter<'a>", "Drain<'_>", "IntoIter"):
        nx = prog.one(r"^<actix_http::header::map::%s as core::iter::traits::iterator::Iterator>::next$" % re_esc(ty))
        adt = "actix_http::header::map::" + ty.split("<")[0]
        dec = []
        for bb, i, s in nx.assigns():
            fl = [x for x in s["p"][1:] if isinstance(x, str) and x.startswith(".")]
            if fl and fl[-1] == "." + adt + ".remaining":
                e = nx.rv_expr(s["rv"], 5)
                top = e[1] if e[0] == "place" else e
                if top[0] == "bin" and top[1] in ("Sub", "SubWithOverflow") and is_const_int(1)(top[3]):
                    dec.append(bb)
        somes = [(bb, e) for bb, e in nx.ret_exprs() if is_agg(e, r"Option::Some$")]
        ck.anchor("C18-c", len(somes), 1, "Some(..) returns of %s::next" % ty)
        for i_, (bb, e) in enumerate(somes):
            doms = [d for d in dec if nx.dominates(d, bb)]
            ck.ob("C18-c.counted-once", "%s|Some#%d" % (ty.split("<")[0], i_), len(doms) == 1, nx, bb, "a returned element is preceded by exactly one `remaining -= 1` (%d)" % len(doms))
        sh = prog.one(r"^<actix_http::header::map::%s as core::iter::traits::iterator::Iterator>::size_hint$" % re_esc(ty))
        ok = any(e[0] == "agg" and e[1] == "tuple" and len(e[3]) == 2 and e_has_field(e[3][0], r"\.remaining$") and e_has_field(e[3][1], r"\.remaining$") for bb, e in sh.ret_exprs())
        ck.ob("C18-c.size-hint", ty.split("<")[0], ok, sh, None, "size_hint() is (remaining, Some(remaining))")
        ctor = prog.one(r"^actix_http::header::map::%s::new$" % ty.split("<")[0])
        for b, bb, t in prog.callers(r"^actix_http::header::map::%s::new$" % ty.split("<")[0]):
            rem = b.op_expr(t["args"][1])
            ok = bool(e_calls(rem, r"map::HeaderMap::len$"))
            ck.ob("C18-c.constructed-with-len", "%s<-%s" % (ty.split("<")[0], b.npath.split("::")[-1]), ok, b, bb, "%s is created with HeaderMap::len() of the map it walks" % ty.split("<")[0])
            if ok and (b.npath.endswith("HeaderMap::drain") or b.npath.startswith("<actix_http::header::map::HeaderMap as ")):
                lb = [x[3] for x in e_calls(rem, r"map::HeaderMap::len$")][0]
                src = b.op_expr(t["args"][0])
                srcb = [x[3] for x in e_calls(src, r"HashMap.*::(drain|iter|into_iter)$|IntoIterator>::into_iter$")]
                ck.ob("C18-c.len-before-consume", "%s<-%s" % (ty.split("<")[0], b.npath.split("::")[-1]), bool(srcb) and all(b.dominates(lb, sb) for sb in srcb), b, bb, "len() is evaluated before the map is drained/consumed")
    ln = prog.one(r"^actix_http::header::map::HeaderMap::len$")
    clo = [c for c in prog.with_closures(ln) if c is not ln]
    ok = any(True for _ in ln.calls(r"Iterator::(map|fold|sum)$|Sum.*sum$")) and (any(any(True for _ in c.calls(r"SmallVec.*::len$|Deref>::deref$")) for c in clo) or any(True for _ in ln.calls(r"::len$")))
    ck.ob("C18-c.len-counts-values", "HeaderMap::len", ok, ln, None, "len() is the sum of the value-list lengths (not the number of keys)")

    # ---- (d) case-insensitivity ------------------------------------------------------------
    tas = prog.find(r"^<(&)?(str|alloc::string::String|&alloc::string::String|&str) as actix_http::header::as_name::Sealed>::try_as_name$")
    ck.anchor("C18-d", len(tas), 2, "string-like Sealed::try_as_name impls")
    for b in tas:
        ok = any(True for _ in b.calls(r"HeaderName as core::str::traits::FromStr>::from_str$|HeaderName::from_str$|FromStr.*from_str$"))
        ck.ob("C18-d.string-names-normalised", b.npath.split(" as ")[0].strip("<"), ok, b, None, "string keys are converted with HeaderName::from_str (ASCII-lowercasing)")
    for fn in ("get_value", "get_mut", "remove", "contains_key"):
        b = prog.find(r"^actix_http::header::map::HeaderMap::%s$" % fn)
        if b:
            ok = any(True for _ in b[0].calls(r"as_name::Sealed::try_as_name$|try_as_name$"))
            ck.ob("C18-d.lookup-through-try-as-name", fn, ok, b[0], None, "HeaderMap::%s resolves its key through try_as_name" % fn, nontrivial=False)

    # ---- (e) from_drain ---------------------------------------------------------------------------
    fd = prog.one(r"^actix_http::header::map::HeaderMap::from_drain$")
    clo = [c for c in prog.with_closures(fd) if c is not fd and any(True for _ in c.calls(r"map::HeaderMap::append$"))]
    ck.anchor("C18-e", len(clo), 1, "fold closure of from_drain")
    for c in clo:
        ok = False
        det = ""
        for bb, t in c.calls(r"map::HeaderMap::append$"):
            # the key handed to append: strip the clone
            key_local = None
            kop = t["args"][1]
            kpl = kop.get("move") or kop.get("copy")
            if kpl:
                for d in c.defs().get(kpl[0], []):
                    if d[0] == "call" and rx(r"Clone>::clone$").search(cname(d[2])):
                        key_local = base_local(c, d[2]["args"][0])
                if key_local is None:
                    key_local = base_local(c, kop)
            # the name carried to the next iteration: second component of the returned tuple
            carried = None
            for d in c.defs().get(0, []):
                if d[0] == "=" and d[3]["k"] == "agg" and d[3]["ak"] == "tuple" and len(d[3]["ops"]) == 2:
                    carried = base_local(c, d[3]["ops"][1])
            ok = key_local is not None and key_local == carried
            # and that name falls back to the previous name (a path from the accumulator argument reaches it)
            e = c.local_expr(key_local) if key_local is not None else None
            uses_prev = e is not None and any(r[0] == "arg" and r[1] == 2 for x in deep_conds(c, e) for r in e_roots(x)) and any(r[0] == "arg" and r[1] == 3 for x in deep_conds(c, e) for r in e_roots(x))
            ok = ok and uses_prev
            det = "appended under local _%s, carried local _%s, derives from both the entry and the previous name: %s" % (key_local, carried, uses_prev)
        ck.ob("C18-e.from-drain-reuses-name", "HeaderMap::from_drain", ok, c, None, "the name an entry is appended under is also the name carried to the next entry, and it falls back to the previous name (%s)" % det)
    # every iterator of the map that claims ExactSizeIterator gives an exact hint on every path: ExactSizeIterator::len()
    # asserts upper == Some(lower), so an open upper bound is a panic for the caller
    exact = [i for i in prog.impls if str(i.get("trait", "")).endswith("ExactSizeIterator") and "actix_http::header::map::" in str(i.get("self", ""))]
    ck.anchor("C18-c", len(exact), 3, "ExactSizeIterator impls in header/map.rs")
    for i_ in exact:
        ty = i_["self"].split("::")[-1]
        shs = prog.find(r"^<actix_http::header::map::%s(<[^>]*>)? as core::iter::traits::iterator::Iterator>::size_hint$" % re_esc(ty.split("<")[0]))
        if not shs:
            ck.ob("C18-c.exact-size-hint", ty.split("<")[0], False, None, None, "%s implements ExactSizeIterator but does not override size_hint (the default is (0, None))" % ty)
            continue
        sh = shs[0]
        ok = True
        for bb, e in sh.ret_exprs():
            if e[0] == "agg" and e[1] == "tuple" and len(e[3]) == 2:
                ok = ok and is_agg(e[3][1], r"Option::Some$")
            elif e[0] == "call" and rx(r"size_hint$").search(e[1] or ""):
                ok = ok and bool(rx(r"(slice::iter::Iter|smallvec::IntoIter|smallvec::Drain|vec::IntoIter|hash_map::Keys|hash::map::Keys|hashbrown.*Keys|option::)").search(e[1] or "")) or ok and bool(rx(r"Iter|Keys|Drain").search(e[1] or ""))
            else:
                ok = False
        ck.ob("C18-c.exact-size-hint", ty.split("<")[0], ok, sh, None, "size_hint() of %s has upper == Some(lower) on every path (a literal tuple with Some(..), or the hint of an exact-size std/smallvec iterator)" % ty)


def re_esc(s):
    import re as _re
    return _re.escape(s)
