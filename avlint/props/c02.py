"""C02 — HTTP/1 responses: one per request, in order, self-framed, body-faithful."""
from ..h1 import *  # noqa

EXPLANATION = (
    "Static rules over actix_http::h1::{codec,encoder,dispatcher}: (a) per-request framing state — the set S of Codec "
    "fields written when a request head is decoded and read when a response head is encoded is computed; if the "
    "dispatcher can decode a further request before the pending response is encoded (decode-ahead: computed on "
    "poll_request's CFG) then every encode of a response head must be dominated by a call that restores S from the "
    "request being answered. Today S = {flags(HEAD), version, conn_type}, decode-ahead holds and no restore exists: a "
    "known finding. (b) an empty body chunk cannot terminate a message: wherever the transfer encoder treats an empty "
    "slice as end-of-body, every data-chunk call into it is guarded by !is_empty (found and fixed in encode_chunk). "
    "(c) framing tables: encode_headers treats 100/101/102/204 as no-length/no-body and 304 as keep-length/no-body, "
    "user Connection headers are never copied and user Content-Length/Transfer-Encoding only when skip_len is false; the "
    "transfer encoder is `empty` for HEAD; the transfer encoder for bodiless statuses is chosen without consulting the "
    "status (known finding: body bytes follow a 204/304 head). (d) a short or failed body never looks complete: "
    "encode_eof errs on Length(rem != 0), every Result of Codec::encode in the dispatcher is propagated, the body-error "
    "arms return Err(DispatchError::Body) without passing encode(Chunk(None)). (e) one head per dispatched request: "
    "Codec::encode(Item) only from send_response_inner, that only from the two senders; `100 Continue` bytes only on "
    "the Ready(Ok) edge of the expect future. Byte-for-byte body equality is not decided."
)
RULES = "field effect sets, dominance, sibling/table agreement, error-propagation discipline over the h1 codec/encoder/dispatcher."

CODEC_F = r"\.actix_http::h1::codec::Codec\."


def run(ck, prog, tier, load):
    dec = prog.one(r"^<actix_http::h1::codec::Codec as tokio_util::codec::decoder::Decoder>::decode$")
    enc = prog.one(r"^<actix_http::h1::codec::Codec as tokio_util::codec::encoder::Encoder<actix_http::h1::Message<\(actix_http::responses::response::Response<\(\)>, actix_http::body::size::BodySize\)>>>::encode$")
    preq = disp(prog, "poll_request")
    presp = disp(prog, "poll_response")
    sri = disp(prog, "send_response_inner")

    # ---- (a) per-request state in a single slot ------------------------------
    # fields written in decode on the path that produces Message::Item
    item_rets = [bb for bb, e in dec.ret_exprs() if any(is_agg(x, r"h1::Message::Item$") for x in walk(e))]
    ck.anchor("C02-a", len(item_rets), 1, "Ok(Some(Message::Item(req))) return in Codec::decode")
    w = set()
    for bb, i, s in dec.assigns():
        fl = [x for x in s["p"][1:] if isinstance(x, str) and rx(CODEC_F).search(x)]
        if fl and any(bb in dec.dominators(r) or r in dec.reach([bb]) for r in item_rets):
            w.add(fl[0].rsplit(".", 1)[-1])
    for (bd, bb, t, m) in method_calls_on_field(prog, CODEC_F + "flags$", bodies=[dec]):
        if m in ("set", "insert", "remove") and any(r in dec.reach([bb]) for r in item_rets):
            w.add("flags")
    # fields read by encode on the Message::Item arm
    item_arm = set()
    for a in enc.live:
        br = enc.branch(a)
        if br and br[0][0] == "discr" and br[0][2] == "actix_http::h1::Message":
            for lab, tb in br[1]:
                if lab == "Item":
                    item_arm = {b for b in enc.live if enc.dominates(tb, b)}
    ck.anchor("C02-a", 1 if item_arm else 0, 1, "Message::Item arm of Codec::encode")
    r = set()
    for bb in item_arm:
        for s in enc.stmts(bb):
            if s["k"] != "=":
                continue
            e = enc.rv_expr(s["rv"], 2)
            for f in e_fields(e):
                if rx(CODEC_F).search(f):
                    r.add(f.rsplit(".", 1)[-1])
        t = enc.term(bb)
        if t["k"] == "call":
            for a in t["args"]:
                for f in e_fields(enc.op_expr(a, 2)):
                    if rx(CODEC_F).search(f):
                        r.add(f.rsplit(".", 1)[-1])
    S = sorted((w & r) - {"payload", "decoder", "encoder", "config"})
    ck.note("C02-a: Codec fields written on decode(Item): %s; read on encode(Item): %s; per-request slot set S = %s" % (sorted(w), sorted(r), S))
    # whatever the encoder reads about "the request being answered" must be RECOMPUTED for every decoded request,
    # not only ever switched on: the flags passed to MessageEncoder::encode by Codec::encode
    enc_flags = set()
    for bb, t in enc.calls(r"MessageEncoder(<T>)?::encode$"):
        for a_ in t["args"]:
            e_ = enc.op_expr(a_, 4)
            if e_calls(e_, r"::contains$"):
                enc_flags |= {k[1].split("::")[-1] for k in e_consts(e_) if k[1] and "codec" in k[1]}
    ck.anchor("C02-a", len(enc_flags), 1, "codec flags passed to MessageEncoder::encode")
    for fl_ in sorted(enc_flags):
        sets = [bb for bb, t in dec.calls(r"codec::_::set$") if e_has_const(dec.op_expr(t["args"][1]), r"::%s$" % fl_) and dec.op_expr(t["args"][2], 4)[0] != "const"]
        clears = [bb for bb, t in dec.calls(r"codec::_::remove$") if e_has_const(dec.op_expr(t["args"][1]), r"::%s$" % fl_)]
        inserts = [bb for bb, t in dec.calls(r"codec::_::insert$") if e_has_const(dec.op_expr(t["args"][1]), r"::%s$" % fl_)]
        if not (sets or clears or inserts):
            continue  # not a per-request flag of decode
        if fl_ == "STREAM" and not sets and not clears:
            ck.ob("C02-a.flag-recomputed", "STREAM", True, dec, inserts[0] if inserts else None, "STREAM is switched on by an upgrade/CONNECT request, after which no further HTTP request is decoded on the connection (one-way by design)", nontrivial=False)
            continue
        ok = bool(item_rets) and dec.must_pass([0], item_rets, sets + clears)[0]
        ck.ob("C02-a.flag-recomputed", fl_, ok, dec, (sets + clears + inserts)[0],
              "Codec::decode recomputes the %s flag for every request it returns (flags.set(%s, cond) or a clear on every path): a flag that is only ever inserted makes every later response on the connection be framed as a reply to an earlier request" % (fl_, fl_))
    # decode-ahead: in poll_request, Codec::decode reachable again without an unconditional encode(Item)
    dsites = [bb for bb, t in preq.calls(r"Codec as tokio_util::codec::decoder::Decoder>::decode$")]
    ck.anchor("C02-a", len(dsites), 1, "Codec::decode in poll_request")
    ahead = any(d in preq.reach(preq.succ[d]) for d in dsites)
    # ... and across polls: a pending handler re-enters poll_request from poll_response
    ahead2 = any(True for bb, t in presp.calls(r"InnerDispatcher::poll_request$"))
    enc_sites = [(b, bb, t) for b, bb, t in prog.callers(r"Codec as tokio_util::codec::encoder::Encoder<.*>>::encode$")
                 if b.file.endswith("h1/dispatcher.rs") and any(is_agg(x, r"h1::Message::Item$") for x in walk(b.op_expr(t["args"][1])))]
    ck.anchor("C02-a", len(enc_sites), 1, "Codec::encode(Message::Item(..)) sites in the dispatcher")
    if S and (ahead or ahead2):
        for b, bb, t in enc_sites:
            restored = False
            for d in b.dominators(bb):
                td = b.term(d)
                if td["k"] == "call" and d != bb and rx(r"^actix_http::h1::codec::Codec::").search(cname(td)):
                    cb = prog.resolve(td)
                    if cb is not None:
                        ws = {x.rsplit(".", 1)[-1] for b2, i2, s2 in cb.assigns() for x in s2["p"][1:] if isinstance(x, str) and rx(CODEC_F).search(x)}
                        ws |= {"flags"} if list(method_calls_on_field(prog, CODEC_F + "flags$", bodies=[cb])) else set()
                        if set(S) <= ws:
                            restored = True
            ck.ob("C02-a.per-request-slot", "h1::Codec|%s" % ",".join(S), restored, b, bb,
                  "response heads are framed from Codec.{%s}, which Codec::decode overwrites for every later request; the dispatcher decodes ahead (same poll: %s, while a handler is pending: %s) and nothing restores them from the request being answered: response i can carry the HEAD flag / HTTP version / connection type of request i+k" % (",".join(S), ahead, ahead2))
    else:
        ck.ob("C02-a.per-request-slot", "h1::Codec|none", True, enc, None, "no per-request codec state is shared across decode-ahead (S=%s, decode-ahead=%s)" % (S, ahead or ahead2))

    # ---- (b) an empty chunk cannot end the body -------------------------------
    te = prog.one(r"^actix_http::h1::encoder::TransferEncoding::encode$")
    # empty-unsafe: under `msg.is_empty()` true the encoder writes or flips eof
    def empty_true(c, lab):
        c2, tr = strip_not(c, True)
        return isinstance(lab, bool) and c2[0] == "call" and rx(r"<impl \[T\]>::is_empty$|slice.*is_empty$").search(c2[1] or "") is not None and (lab if tr else not lab) is True

    et = edges_where(te, empty_true)
    unsafe_eff = []
    for a, tb in et:
        region = te.reach([tb])
        for bb in region:
            if not te.dominates(tb, bb):
                continue
            t = te.term(bb)
            if t["k"] == "call" and rx(r"extend_from_slice$|put_slice$").search(cname(t)) and not is_noise(te, bb):
                unsafe_eff.append(bb)
            for s in te.stmts(bb):
                if s["k"] == "=" and any(isinstance(x, str) and "TransferEncodingKind::Chunked" in x for x in s["p"][1:]):
                    unsafe_eff.append(bb)
    ck.note("C02-b: TransferEncoding::encode is empty-unsafe (acts on an empty slice as end-of-body): %s" % bool(unsafe_eff))
    ck.anchor("C02-b", len(et), 1, "is_empty() tests in TransferEncoding::encode")

    def nonempty_guard(b, bb, arg_expr):
        def p(c, lab):
            c2, tr = strip_not(c, True)
            if not isinstance(lab, bool) or c2[0] != "call":
                return False
            if not rx(r"is_empty$").search(c2[1] or ""):
                return False
            return (lab if tr else not lab) is False
        return guarded_by(b, bb, p)[0]

    if unsafe_eff:
        # walk outwards: TransferEncoding::encode <- encode_chunk <- Codec::encode(Chunk(Some)) <- dispatcher / client
        frontier = [(b, bb, t) for b, bb, t in prog.callers(r"^actix_http::h1::encoder::TransferEncoding::encode$") if "test" not in b.npath]
        ck.anchor("C02-b", len(frontier), 1, "callers of TransferEncoding::encode")
        seen = set()
        depth = 0
        while frontier and depth < 4:
            nxt = []
            for b, bb, t in frontier:
                if (b.path, bb) in seen:
                    continue
                seen.add((b.path, bb))
                if nonempty_guard(b, bb, None):
                    ck.ob("C02-b.empty-chunk-guarded", b.npath.split("::")[-1] + "|" + cname(t).split("::")[-1], True, b, bb, "data-chunk call into the transfer encoder is guarded by !is_empty()")
                    continue
                # unguarded here: the obligation moves to the callers of this body (for data chunks only)
                owner = b
                while owner.parent and owner.parent in prog.bodies:
                    owner = prog.bodies[owner.parent]
                callers = [(b2, bb2, t2) for b2, bb2, t2 in prog.callers("^" + re.escape(owner.npath) + "$") if "tests" not in b2.npath and "::test" not in b2.npath]
                # for Encoder::encode the callee name is the trait impl path
                if not callers and owner.impl_trait:
                    callers = [(b2, bb2, t2) for b2, bb2, t2 in prog.callers(re.escape(owner.npath)) if "tests" not in b2.npath]
                data = []
                for b2, bb2, t2 in callers:
                    args = [b2.op_expr(a) for a in t2["args"]]
                    is_chunk_none = any(is_agg(x, r"Message::Chunk$") and x[3] and is_agg(x[3][0], r"Option::None$") for a in args for x in walk(a))
                    is_item = any(is_agg(x, r"Message::Item$") for a in args for x in walk(a))
                    if is_chunk_none or is_item:
                        continue
                    data.append((b2, bb2, t2))
                if not data:
                    ck.ob("C02-b.empty-chunk-guarded", b.npath.split("::")[-1] + "|" + cname(t).split("::")[-1], False, b, bb,
                          "an empty data chunk reaches the transfer encoder unguarded: with chunked encoding it writes the terminating chunk and the rest of the body is dropped")
                nxt.extend(data)
            frontier = nxt
            depth += 1
        for b, bb, t in frontier:
            ck.ob("C02-b.empty-chunk-guarded", b.npath.split("::")[-1], False, b, bb, "unguarded data-chunk path into an empty-unsafe transfer encoder (depth limit)")

    # ---- (c) framing tables ------------------------------------------------------
    eh = prog.one(r"^actix_http::h1::encoder::MessageType::encode_headers$")
    tbl = {}
    for a in eh.live:
        br = eh.branch(a)
        if not br:
            continue
        n = norm_cmp(br[0], True)
        if n and n[0] == "Eq" and e_calls(n[2], r"MessageType::status$") and any(c[2] is not None for c in e_consts(n[1])):
            code = [c[2] for c in e_consts(n[1]) if c[2] is not None][0]
            tgt = [tb for lab, tb in br[1] if lab is True]
            if tgt:
                tbl[code] = tgt[0]
    ck.anchor("C02-c", len(tbl), 3, "status comparisons in encode_headers")

    # roles, not names: SKIP = the bool local of encode_headers that the header-copy closure captures and tests in
    # its Content-Length / Transfer-Encoding arm; LENV = the BodySize local/parameter that selects the framing line
    clo = [c for c in prog.with_closures(eh) if c is not eh]
    SKIP = set()
    len_arm_tests = {}
    for c in clo:
        for a in c.live:
            br = c.branch(a)
            if br and br[0][0] == "discr" and br[0][2] and br[0][2].endswith("StandardHeader"):
                labs = {lab: tb for lab, tb in br[1] if isinstance(lab, str)}
                for k in ("ContentLength", "TransferEncoding"):
                    if k not in labs:
                        continue
                    for x in c.reach([labs[k]]):
                        bx = c.branch(x)
                        if not bx or bx[0][0] != "place":
                            continue
                        for p_ in bx[0][2]:
                            up = prog.upvar(c, p_) if isinstance(p_, str) and p_.startswith(".^") else None
                            if up and up[0] is eh and up[1][0] in ("var", "phi") and eh.lty(up[1][1]) == "bool":
                                SKIP.add(up[1][1])
                                len_arm_tests.setdefault(k, []).append(x)
    ck.anchor("C02-c", len(SKIP), 1, "bool local of encode_headers tested by the header-copy closure in its length arms (skip flag)")
    LENV = set(l for l in user_locals(eh, r"BodySize$", kinds=("var", "arg")))
    ck.anchor("C02-c", len(LENV), 1, "BodySize local/parameter of encode_headers")

    def arm_effects(tb):
        sk = ln = None
        for bb in eh.reach([tb]):
            if not eh.dominates(tb, bb):
                continue
            for s in eh.stmts(bb):
                if s["k"] != "=" or len(s["p"]) != 1:
                    continue
                l = s["p"][0]
                e = eh.rv_expr(s["rv"], 3)
                if l in SKIP and e[0] == "const":
                    sk = bool(e[2])
                if l in LENV and e[0] == "agg":
                    ln = e[2].split("::")[-1]
        return sk, ln

    for code in (100, 101, 102, 204):
        ok = code in tbl and arm_effects(tbl[code]) == (True, "None")
        ck.ob("C02-c.status-no-length-no-body", str(code), ok, eh, tbl.get(code), "status %d => skip_len = true, length = BodySize::None" % code)
    ok = 304 in tbl and arm_effects(tbl[304]) == (False, "None")
    ck.ob("C02-c.status-304", "304", ok, eh, tbl.get(304), "status 304 => user length header kept (skip_len = false), length = BodySize::None")
    ok_conn = False
    for c in clo:
        for a in c.live:
            br = c.branch(a)
            if br and br[0][0] == "discr" and br[0][2] and br[0][2].endswith("StandardHeader"):
                labs = {lab: tb for lab, tb in br[1] if isinstance(lab, str)}
                if "Connection" in labs:
                    # Connection arm returns without writing
                    r0 = c.reach([labs["Connection"]])
                    ok_conn = not any(is_call(c.term(x), r"write_data$|write_camel_case$") for x in r0 if c.dominates(labs["Connection"], x))
    # the length arms test the captured skip flag
    ok_len = bool(len_arm_tests.get("ContentLength")) and bool(len_arm_tests.get("TransferEncoding"))
    ck.ob("C02-c.user-connection-skipped", "encode_headers", ok_conn, eh, None, "a user-supplied Connection header is never copied (the codec writes its own)")
    ck.ob("C02-c.user-length-skipped", "encode_headers", ok_len, eh, None, "user Content-Length / Transfer-Encoding are copied only when skip_len is false")
    me = prog.one(r"^actix_http::h1::encoder::MessageEncoder::encode$")
    ctors = [(bb, cname(t).split("::")[-1]) for bb, t in me.calls(r"^actix_http::h1::encoder::TransferEncoding::(length|chunked|eof|empty)$")]
    ck.anchor("C02-c", len(ctors), 2, "TransferEncoding constructors in MessageEncoder::encode")
    # HEADP = the parameter of MessageEncoder::encode into which the server codec passes `flags.contains(HEAD)`
    HEADP = set()
    for b_, bb_, t_ in prog.callers(r"^actix_http::h1::encoder::MessageEncoder(<T>)?::encode$"):
        for i_, a_ in enumerate(t_["args"]):
            e_ = b_.op_expr(a_, 5)
            if e_calls(e_, r"::contains$") and e_has_const(e_, r"::HEAD$"):
                HEADP.add(i_ + 1)  # parameter i of the callee is local i+1
    ck.anchor("C02-c", len(HEADP), 1, "parameter of MessageEncoder::encode that receives flags.contains(HEAD) from h1::Codec")
    for bb, k in ctors:
        if k == "empty":
            continue
        g = guarded_by(me, bb, lambda c, lab: bool(bool_test(c, lab)) and bool_test(c, lab)[0][0] == "arg" and bool_test(c, lab)[0][1] in HEADP and bool_test(c, lab)[1] is False)[0]
        ck.ob("C02-c.head-has-no-body", "MessageEncoder::encode|%s" % k, g, me, bb, "TransferEncoding::%s only on the !head edge (HEAD responses get the empty encoder)" % k)
    # the framing of the body follows the declared size: Sized(n) -> Length(n) (cut to / checked against n), Stream ->
    # chunked or read-to-close, None -> empty. Assuming each size variant, only its constructors are reachable.
    ALLOWED = {"Sized": {"length", "empty"}, "Stream": {"chunked", "eof", "empty"}, "None": {"empty"}}  # `empty` also serves HEAD and bodiless statuses
    for variant, allowed in ALLOWED.items():
        def not_variant(c, lab, variant=variant):
            return c[0] == "discr" and (c[2] or "").endswith("BodySize") and not label_may_be(lab, variant)
        r_, _rem = reach_under(me, [not_variant])
        got = sorted({k for bb, k in ctors if bb in r_})
        ck.ob("C02-c.encoder-follows-size", variant, bool(got) and set(got) <= allowed and (variant != "Sized" or "length" in got), me, next((bb for bb, k in ctors if bb in r_ and k not in allowed), None),
              "assuming the body size is BodySize::%s the transfer encoder constructed is one of %s (got %s): a sized body is cut to, and checked against, its declared length" % (variant, sorted(allowed), got))
    # per status: assuming status == s, no body-carrying transfer encoder may be constructed
    def status_is(s):
        def p(c, lab):
            if not isinstance(lab, bool):
                if c[0] == "discr" and e_calls(c, r"MessageType::status$") and c[1][0] == "call":
                    return lab == "None"
                return False
            n = norm_cmp(c, lab)
            if not n or n[0] != "Eq":
                return False
            a, b2 = n[1], n[2]
            if not (e_calls(a, r"MessageType::status$") or e_calls(b2, r"MessageType::status$")):
                return False
            ks = [x[2] for x in e_consts(a) + e_consts(b2) if x[2] is not None]
            if not ks:
                return False
            # impossible edges: (status == k) true for k != s ; (status == s) false
            return (n[3] is True and ks[0] != s) or (n[3] is False and ks[0] == s)
        return p

    body_ctors = [bb for bb, k in ctors if k != "empty"]
    for s_code, why in ((100, "interim"), (102, "interim"), (204, "No Content"), (304, "Not Modified")):
        r, _ = reach_under(me, [status_is(s_code)])
        bad = [bb for bb in body_ctors if bb in r]
        ck.ob("C02-c.bodiless-status-te", str(s_code), not bad, me, bad[0] if bad else None,
              "assuming the response status is %d (%s), no body-carrying TransferEncoding is constructed (else body bytes follow a head that declares no body)" % (s_code, why))
    # ---- (d) a short or failed body never looks complete -----------------------------
    # the transfer encoder itself: a sized body is cut to what is still owed and the count is kept;
    # the chunked terminator is written once
    te = prog.one(r"^actix_http::h1::encoder::TransferEncoding::encode$")
    apps = [(bb, t, te.op_expr(t["args"][1])) for bb, t in te.calls(r"extend_from_slice$")]
    is_kind = lambda c, name: c[0] == "discr" and e_has_field(c, r"\.kind$")
    def arm(bb, name):
        return any(is_kind(c, name) and lab == name for c, lab, a in te.guards(bb))
    len_apps = [(bb, t, e) for bb, t, e in apps if arm(bb, "Length")]
    ck.anchor("C02-d", len(len_apps), 1, "append in the Length arm of TransferEncoding::encode")
    rem_writes = [(bb, st, te.rv_expr(st["rv"], 8)) for bb, i, st in te.assigns() if len(st["p"]) > 1 and e_bins(te.rv_expr(st["rv"], 8), ("Sub", "SubWithOverflow"))]
    for bb, t, e in len_apps:
        mins = e_calls(e, r"core::cmp::min$")
        cut = bool(mins) and any(isinstance(p_, str) and "TransferEncodingKind::Length" in p_ for m_ in mins for x in walk(m_) if x[0] == "place" for p_ in x[2]) and bool(e_calls(e, r"slice::len$|len$"))
        ck.ob("C02-d.sized-body-cut", "TransferEncoding::encode", cut, te, bb, "a sized body is written as msg[..min(remaining, msg.len())]: %s" % short(e, 5))
        amt = canon(mins[0], 6) if mins else None
        ok_dec = False
        through = []
        for b2, st, rv in rem_writes:
            for x in e_bins(rv, ("Sub", "SubWithOverflow")):
                if amt is not None and canon(_unwrap_cast(x[3]), 6) == amt and any(isinstance(p_, str) and "TransferEncodingKind::Length" in p_ for y in walk(x[2]) if y[0] == "place" for p_ in y[2]):
                    through.append(b2)
        if through:
            ok_dec = te.must_pass_after(bb, te.returns(), through)[0]
        ck.ob("C02-d.sized-body-accounted", "TransferEncoding::encode", ok_dec, te, bb, "after the append `remaining` is decreased by exactly the number of bytes written, on every path to a return")
    term = [(bb, t, e) for bb, t, e in apps if any(x[0] == "const" and x[3] == "0\r\n\r\n" for x in walk(e))]
    ck.anchor("C02-d", len(term), 1, "append of the chunked terminator in TransferEncoding::encode")
    for bb, t, e in term:
        not_yet = any(c[0] == "place" and any(isinstance(p_, str) and "TransferEncodingKind::Chunked" in p_ for p_ in c[2]) and lab is False for c, lab, a in te.guards(bb))
        sets = [b2 for b2, i, st in te.assigns() if len(st["p"]) > 1 and st["rv"]["k"] == "use" and te.rv_expr(st["rv"], 3)[:3] == ("const", None, 1)]
        ok_t = not_yet and bool(sets) and te.must_pass_after(bb, te.returns(), sets)[0] if bb not in sets else not_yet
        ck.ob("C02-d.terminator-once", "TransferEncoding::encode", ok_t, te, bb, "the last-chunk marker is written only while the end flag is clear, and the flag is set on every path from there (a second marker would be read as the start of the next response)")
    eof = prog.one(r"^actix_http::h1::encoder::TransferEncoding::encode_eof$")
    errs = ret_sites(eof, lambda e: is_agg(e, r"Result::Err$"))
    okd = False
    for bb, e in errs:
        for c, lab, a in eof.guards(bb):
            n = norm_cmp(c, lab) if isinstance(lab, bool) else None
            if n and n[0] == "Eq" and n[3] is False and is_const_int(0)(n[2]) and any(isinstance(p, str) and "TransferEncodingKind::Length" in p for p in (n[1][2] if n[1][0] == "place" else ())):
                okd = True
    ck.ob("C02-d.short-sized-body-errors", "TransferEncoding::encode_eof", okd, eof, errs[0][0] if errs else None, "ending a sized body with bytes still owed (Length(rem != 0)) is an error, not a clean end")
    n_e = 0
    for bb, t in presp.calls(r"Codec as tokio_util::codec::encoder::Encoder<.*>>::encode$"):
        n_e += 1
        dst = t["dest"][0]
        used = [b2 for b2, t2 in presp.calls(r"Try>::branch$") if any((a.get("move") or a.get("copy") or [None])[0] == dst for a in t2["args"])]
        msg = presp.op_expr(t["args"][1])
        kind = "Chunk(None)" if any(is_agg(x, r"Option::None$") for x in walk(msg)) else "Chunk(Some)"
        ck.ob("C02-d.encode-result-propagated", "poll_response|%s|%d" % (kind, n_e), bool(used) and presp.succ[bb] == [used[0]], presp, bb, "the Result of Codec::encode(%s) goes straight into `?`" % kind)
    ck.anchor("C02-d", n_e, 2, "Codec::encode calls in poll_response")
    berr = [(bb, e) for bb, e in presp.ret_exprs() if is_agg(e, r"Result::Err$") and any(is_agg(x, r"DispatchError::Body$") for x in walk(e))]
    ck.anchor("C02-d", len(berr), 2, "Err(DispatchError::Body) returns in poll_response")
    eof_calls = [bb for bb, t in presp.calls(r"Encoder<.*>>::encode$") if any(is_agg(x, r"Option::None$") for x in walk(presp.op_expr(t["args"][1])))]
    for i, (bb, e) in enumerate(berr):
        g = any(c[0] == "discr" and e_calls(c, r"MessageBody.*poll_next$") and lab == "Err" for c, lab, a in presp.guards(bb))
        # within this iteration no end-of-body marker was written: the Err arm does not pass an eof encode
        arm = [a for c, lab, a in presp.guards(bb) if c[0] == "discr" and lab == "Err"]
        clean = True
        if arm:
            tb = [t2 for lab2, t2 in presp.branch(arm[0])[1] if lab2 == "Err"][0]
            clean = not any(x in eof_calls for x in presp.reach([tb]) if presp.dominates(tb, x))
        ck.ob("C02-d.body-error-terminates", "poll_response|%d" % i, g and clean, presp, bb, "a body stream error returns Err(DispatchError::Body) (connection dropped) without writing the end-of-body marker")

    # ---- (e) exactly one head per dispatched request -----------------------------------
    for b, bb, t in enc_sites:
        ck.ob("C02-e.head-encoder-site", b.npath.split("::")[-1], b is sri, b, bb, "Codec::encode(Message::Item) called from %s (only send_response_inner may)" % b.npath.split("::")[-1], nontrivial=False)
    for b, bb, t in prog.callers(r"^actix_http::h1::dispatcher::InnerDispatcher::send_response_inner$"):
        ok = b.npath.endswith("::send_response") or b.npath.endswith("::send_error_response")
        ck.ob("C02-e.sender-site", b.npath.split("::")[-1], ok, b, bb, "send_response_inner called from %s" % b.npath.split("::")[-1], nontrivial=False)
    # encoded-but-unflushed bytes are never discarded: what is done to write_buf, and where
    WB = DF + r"write_buf$"
    allowed = {
        "len": None, "is_empty": None, "deref": None, "capacity": None, "reserve": None,
        "extend_from_slice": ("send_continue", "poll_response"),
        "advance": ("poll_flush",), "clear": ("poll_flush",),
        "take": ("upgrade",),  # mem::take(this.write_buf): must flow into the Framed (checked below)
    }
    for b, bb, t, m in method_calls_on_field(prog, WB, ["actix_http"]):
        if not b.file.endswith("h1/dispatcher.rs") or is_noise(b, bb):
            continue
        if m in allowed and allowed[m] is None:
            continue
        fn = b.npath.split("::")[-1]
        ok = m in allowed and fn in allowed[m]
        ck.ob("C02-e.write-buf-effect", "%s|%s" % (fn, m), ok, b, bb, "write_buf.%s in %s (bytes may be appended by the encoder paths and removed only by poll_flush after they were written)" % (m, fn))
    up = disp(prog, "upgrade")
    takes = [bb for bb, t in up.calls(r"core::mem::take$") if e_has_field(up.op_expr(t["args"][0]), WB)]
    fw = [(bb, s) for bb, i, s in up.assigns() if any(isinstance(x, str) and x.endswith("FramedParts.write_buf") for x in s["p"][1:])]
    fp = [bb for bb, t in up.calls(r"Framed.*::from_parts$")]
    ok = bool(takes) and bool(fw) and bool(fp) and all(e_calls(up.rv_expr(s["rv"], 4), r"core::mem::take$") and e_has_field(up.rv_expr(s["rv"], 4), WB) for bb, s in fw) and all(any(up.dominates(b1, f) for b1, s in fw) for f in fp)
    ck.ob("C02-e.upgrade-hands-over-write-buf", "upgrade", ok, up, fp[0] if fp else None, "on upgrade the not-yet-flushed response bytes (write_buf) are moved into the Framed handed to the upgrade service, not dropped")
    # the write side: a response is put on the wire once (shared with C04: a duplicated or dropped stretch of the
    # write buffer is also an interleaved / non-self-delimiting response stream)
    from .c04 import flush_accounting
    flush_accounting(ck, prog, "C02-f")
    # the connection future gives up with the stored error only after every dispatched request has been answered
    from .c04 import error_exit
    error_exit(ck, prog, "C02-e")
    # pipelined requests are answered in the order they were decoded: the queue is used strictly first-in first-out
    qm = method_calls_on_field(prog, r"\.actix_http::h1::dispatcher::(InnerDispatcher|__InnerDispatcherProjection|_::__InnerDispatcherProjection|[A-Za-z_:]*Projection)\.messages$|InnerDispatcher[A-Za-z_]*\.messages$", ["actix_http"])
    ck.anchor("C02-e", len([1 for q in qm if q[3] == "push_back"]), 1, "messages.push_back in the h1 dispatcher")
    ck.anchor("C02-e", len([1 for q in qm if q[3] == "pop_front"]), 1, "messages.pop_front in the h1 dispatcher")
    FIFO_OK = {"push_back", "pop_front", "len", "is_empty", "clear", "front", "capacity", "reserve", "new", "with_capacity", "default"}
    for b_, bb, t, m in qm:
        if m in ("len", "is_empty"):
            continue
        ck.ob("C02-e.request-queue-fifo", "%s|%s" % (b_.npath.split("::")[-1], m), m in FIFO_OK, b_, bb, "the queue of decoded-but-not-yet-dispatched requests is only ever appended at the back and taken from the front (`%s`)" % m)
    # 100 Continue
    n_c = 0
    for b in prog.in_file("actix-http/src/h1/dispatcher.rs"):
        for bb, t in b.calls(r"extend_from_slice$"):
            if len(t["args"]) > 1 and e_has_const(b.op_expr(t["args"][1]), r"100 Continue"):
                n_c += 1
                if b.npath.endswith("::send_continue"):
                    cs = prog.callers(r"InnerDispatcher::send_continue$")
                    ok = bool(cs) and all(any(c[0] == "discr" and lab == "Ok" and e_calls(c, r"Future::poll$") for c, lab, a in b2.guards(bb2)) for b2, bb2, t2 in cs)
                else:
                    ok = any(c[0] == "discr" and lab == "Ok" and e_calls(c, r"Future::poll$") for c, lab, a in b.guards(bb))
                ck.ob("C02-e.continue-only-after-expect", b.npath.split("::")[-1], ok, b, bb, "`100 Continue` is written only on the Ready(Ok) edge of the expect future")
    ck.anchor("C02-e", n_c, 2, "writes of the interim 100 Continue response")

    # ---- (g) the body adapters the framing relies on -------------------------------------------------------------
    # SizedStream reports the length it was given, whatever it is: the head writer emits `content-length: n` only for
    # Sized(n); None leaves a keep-alive response without any framing header
    for b in prog.find(r"^<actix_http::body::sized_stream::SizedStream<S> as actix_http::body::message_body::MessageBody>::size$"):
        rets = list(b.ret_exprs())
        ok = bool(rets) and all(is_agg(e, r"BodySize::Sized$") and e[3] and e_has_field(e[3][0], r"SizedStream\.size$") for bb, e in rets)
        ck.ob("C02-g.sized-stream-declares-size", "SizedStream::size", ok, b, rets[0][0] if rets else None, "SizedStream::size() is BodySize::Sized(self.size) on every path (also for 0)")
    # a body adapter returns Pending only by handing on its source's Pending (which registered the waker) or after
    # waking itself: a fresh Pending on a Ready path parks the response forever
    n_p = 0
    for f in ("actix-http/src/body/body_stream.rs", "actix-http/src/body/sized_stream.rs", "actix-http/src/body/message_body.rs", "actix-http/src/body/either.rs", "actix-http/src/body/boxed.rs"):
        for b in prog.in_file(f):
            if "::tests::" in b.npath or not b.npath.endswith("poll_next"):
                continue
            for bb, st, e in agg_sites(b, r"Poll::Pending$"):
                if is_noise(b, bb):
                    continue
                n_p += 1
                handed_on = any(c[0] == "discr" and e_calls(c, r"poll_next$|Future>::poll$") and lab == "Pending" for c, lab, a in b.guards(bb))
                woke = any(is_call(b.term(d), r"Waker::wake_by_ref$|Waker::wake$") for d in b.dominators(bb))
                ck.ob("C02-g.adapter-pending-has-waker", "%s" % "::".join(b.npath.split("::")[-3:]), handed_on or woke, b, bb, "Poll::Pending is the source's own Pending (its waker is registered) or follows a self wake-up")
    ck.anchor("C02-g", n_p, 1, "Poll::Pending sites in the body adapters")


import re  # noqa: E402


def _unwrap_cast(e):
    while isinstance(e, tuple) and e and e[0] == "cast":
        e = e[-1] if isinstance(e[-1], tuple) else e[2]
    return e
