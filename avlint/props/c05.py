"""C05 — HTTP/1 per-connection memory bounded by configuration."""
from ..h1 import *  # noqa

EXPLANATION = (
    "Every site that grows a per-connection buffer or queue of the HTTP/1 dispatcher is found by query over the resolved "
    "program (reads into read_buf, need-more of the head parser, pushes onto the pipelined-message queue, feeds into the "
    "request-body channel, appends of response chunks to write_buf) and must be guarded on every path by the comparison "
    "against its limit: read_buf.len() < MAX_BUFFER_SIZE before poll_read_buf (with the full case returning instead of "
    "reading), src.len() < MAX_BUFFER_SIZE before the head parser asks for more (the other edge yields TooLarge, which "
    "the dispatcher answers with 431 and READ_DISCONNECT), messages.len() < MAX_PIPELINED_MESSAGES and can_read() (which "
    "consults the body channel's 32 KiB back-pressure flag) before poll_request decodes, write_buf.len() < "
    "h1_write_buffer_size at the head of both response-body loops. The limit constants are read from the const table. "
    "The pipelining and read-ahead guards are evaluated once per poll_request call, so the effective bounds are 'limit "
    "plus what one full read buffer can hold' — still constants. Actual byte high-water marks are not decided."
)
RULES = "guarded-site (growth site dominated by / every path crossing the limit comparison), table of limit constants, 431 mapping."


def run(ck, prog, tier, load):
    # ---- constants ---------------------------------------------------------
    consts = {
        "actix_http::h1::decoder::MAX_BUFFER_SIZE": (1024, 1 << 22),
        "actix_http::h1::payload::MAX_BUFFER_SIZE": (1024, 1 << 20),
        "actix_http::h1::dispatcher::MAX_PIPELINED_MESSAGES": (1, 1024),
        "actix_http::h1::decoder::MAX_HEADERS": (8, 1024),
    }
    for c, (lo, hi) in consts.items():
        v = prog.consts.get(c, {}).get("int")
        ck.ob("C05.limit-const", c.split("actix_http::h1::")[1], isinstance(v, int) and lo <= v <= hi, None, None, "%s = %s (a fixed constant)" % (c, v), nontrivial=False)

    # ---- unparsed input: read_available -------------------------------------
    ra = disp(prog, "read_available")
    RB = DF + r"read_buf$"
    reads = [bb for bb, t in ra.calls(r"tokio_util::util::poll_buf::poll_read_buf$|poll_read_buf$")]
    ck.anchor("C05-a", len(reads), 1, "poll_read_buf in read_available")
    lim = cmp_pred("Lt", lambda e: e_has_field(e, RB) and bool(e_calls(e, r"BytesMut::len$")), lambda e: e_has_const(e, r"decoder::MAX_BUFFER_SIZE$"), True)
    for bb in reads:
        buf = ra.op_expr(ra.term(bb)["args"][2])
        ok_buf = e_has_field(buf, RB)
        # every path to the read — including around the loop — crosses the `len < MAX` edge after the previous read
        ok, wit = guarded_by(ra, bb, lim)
        # loop: from the read back to itself must cross the comparison again
        again = ra.reach(ra.succ[bb], removed_edges=edges_where(ra, lim)) | ra.reach(ra.succ[bb], removed=cond_eval_blocks(ra, lim))
        ck.ob("C05-a.read-guarded", "read_available", ok_buf and ok and bb not in again, ra, bb,
              "socket read into read_buf only on the edge read_buf.len() < MAX_BUFFER_SIZE, re-tested on every loop iteration", witness=ra.path_lines(wit))
    # nobody else reads from the socket into read_buf
    for b, bb, t in prog.callers(r"poll_read_buf$"):
        if b.crate == "actix_http" and b.file.endswith("h1/dispatcher.rs"):
            ck.ob("C05-a.read-site", b.npath, b is ra, b, bb, "poll_read_buf called from %s" % b.npath, nontrivial=False)

    # ---- head parser: need-more only below the limit, else TooLarge ----------
    for pat, what in ((r"^<actix_http::requests::request::Request as actix_http::h1::decoder::MessageType>::decode$", "request"),
                      (r"^<actix_http::responses::head::ResponseHead as actix_http::h1::decoder::MessageType>::decode$", "response")):
        d = prog.one(pat)
        nm = ret_sites(d, lambda e: agg_chain(e)[0][:2] == ["core::result::Result::Ok", "core::option::Option::None"])
        ck.anchor("C05-b", len(nm), 1, "need-more return of %s head decode" % what)
        hl = cmp_pred("Lt", lambda e: bool(e_calls(e, r"BytesMut::len$")) and root_is(e, args_of_type(d, r"BytesMut$")), lambda e: e_has_const(e, r"decoder::MAX_BUFFER_SIZE$"), True)
        for bb, e in nm:
            ok, wit = guarded_by(d, bb, hl)
            ck.ob("C05-b.head-need-more-bounded", what, ok, d, bb, "`Ok(None)` (need more bytes for the head) only while src.len() < MAX_BUFFER_SIZE", witness=d.path_lines(wit))
        tl = ret_sites(d, lambda e: is_agg(e, r"Result::Err$") and is_agg(e[3][0], r"ParseError::TooLarge$"))
        ck.ob("C05-b.head-too-large", what, bool(tl), d, tl[0][0] if tl else None, "the other edge yields ParseError::TooLarge", nontrivial=False)

    # ---- dispatcher maps TooLarge to 431 + READ_DISCONNECT --------------------
    pr = disp(prog, "poll_request")
    arm = None
    for a in pr.live:
        br = pr.branch(a)
        if br and br[0][0] == "discr" and br[0][2] == "actix_http::error::ParseError":
            for lab, tb in br[1]:
                if lab == "TooLarge":
                    arm = tb
    ck.anchor("C05-b", 1 if arm is not None else 0, 1, "ParseError::TooLarge arm in poll_request")
    if arm is not None:
        region = pr.reach([arm])
        c431 = [bb for bb, t in pr.calls(r"Response.*::with_body$") if bb in region and e_has_const(pr.op_expr(t["args"][0]), r"StatusCode::REQUEST_HEADER_FIELDS_TOO_LARGE$")]
        ok431 = bool(c431) and pr.dominates(arm, c431[0])
        ck.ob("C05-b.too-large-is-431", "poll_request", ok431, pr, c431[0] if c431 else arm, "the TooLarge arm queues a 431 response")
        rdis = [bb for bb, op, fl, t in flag_ops(pr) if op == "insert" and "READ_DISCONNECT" in fl and pr.dominates(arm, bb)]
        ok, wit = pr.must_pass([arm], pr.returns(), rdis)
        ck.ob("C05-b.too-large-stops-reading", "poll_request", ok and bool(rdis), pr, arm, "every path from the TooLarge arm to return inserts READ_DISCONNECT", witness=pr.path_lines(wit))

    # ---- pipelined queue and body read-ahead -----------------------------------
    MSG = DF + r"messages$"
    dec = [bb for bb, t in pr.calls(r"^<actix_http::h1::codec::Codec as tokio_util::codec::decoder::Decoder>::decode$")]
    ck.anchor("C05-c", len(dec), 1, "Codec::decode in poll_request")
    qlim = cmp_pred("Lt", lambda e: e_has_field(e, MSG) and bool(e_calls(e, r"VecDeque.*::len$")), lambda e: e_has_const(e, r"MAX_PIPELINED_MESSAGES$"), True)

    def can_read_true(c, lab):
        c2, tr = strip_not(c, True)
        return isinstance(lab, bool) and c2[0] == "call" and rx(r"InnerDispatcher::can_read$").search(c2[1] or "") is not None and (lab if tr else not lab) is True

    for bb in dec:
        ok1, w1 = guarded_by_any(pr, bb, qlim)
        ok2, w2 = guarded_by_any(pr, bb, can_read_true)
        ck.ob("C05-c.decode-needs-queue-room", "poll_request", ok1, pr, bb, "requests are decoded only after messages.len() < MAX_PIPELINED_MESSAGES was established", witness=pr.path_lines(w1))
        ck.ob("C05-c.decode-needs-can-read", "poll_request", ok2, pr, bb, "input is decoded (and body chunks fed) only after can_read(cx) returned true", witness=pr.path_lines(w2))
    pushes = [(b, bb, t) for (b, bb, t, m) in method_calls_on_field(prog, MSG, ["actix_http"]) if m in ("push_back", "push_front", "insert", "extend", "append")]
    ck.anchor("C05-c", len(pushes), 2, "pushes onto InnerDispatcher.messages")
    for b, bb, t in pushes:
        ck.ob("C05-c.push-site", "%s|%s" % (b.npath.split("::")[-1], cname(t).split("::")[-1]), b is pr, b, bb, "messages.%s in %s (only poll_request may enqueue)" % (cname(t).split("::")[-1], b.npath.split("::")[-1]), nontrivial=False)
    cr = disp(prog, "can_read")
    # can_read: false under READ_DISCONNECT; with a payload only when need_read is Read|Dropped
    t_rets = [bb for bb, st, e in agg_sites(cr, r"^$")] if False else []
    nr = [bb for bb, t in cr.calls(r"PayloadSender::need_read$")]
    ck.ob("C05-c.can-read-consults-channel", "can_read", bool(nr), cr, nr[0] if nr else None, "can_read consults PayloadSender::need_read (the channel's 32 KiB back-pressure flag)")
    feeds = prog.callers(r"^actix_http::h1::payload::PayloadSender::feed_data$")
    feeds = [(b, bb, t) for b, bb, t in feeds if b.file.endswith("h1/dispatcher.rs")]
    ck.anchor("C05-c", len(feeds), 1, "feed_data call sites in the dispatcher")
    for b, bb, t in feeds:
        ck.ob("C05-c.feed-site", b.npath.split("::")[-1], b is pr, b, bb, "request-body bytes are fed only from poll_request (behind can_read)", nontrivial=False)
    # the back-pressure flag must be recomputed where the queue GROWS (producer side), else can_read stays true
    fd = prog.one(r"^actix_http::h1::payload::Inner::feed_data$")
    FI = r"\.actix_http::h1::payload::Inner\."
    pushes_fd = [bb for bb, t in fd.calls(r"VecDeque.*::push_back$")]
    nrw = []
    for (bd, bb, s2, e) in writes_of_field(prog, FI + "need_read$", ["actix_http"]):
        if bd is fd:
            if any(c[0] == "Lt" and c[3] is True and e_has_field(c[1], FI + "len$") and e_has_const(c[2], r"payload::MAX_BUFFER_SIZE$") for c in cmp_forms(e)):
                nrw.append(bb)
    ok = bool(pushes_fd) and bool(nrw) and all(fd.must_pass_after(pb, fd.returns(), nrw)[0] or any(fd.dominates(w, pb) for w in nrw) for pb in pushes_fd)
    # and the length it compares was updated with this chunk
    lenw = [bb for (bd, bb, s2, e) in writes_of_field(prog, FI + "len$", ["actix_http"]) if bd is fd]
    ok = ok and bool(lenw) and all(any(fd.dominates(l, w) or l == w for l in lenw) for w in nrw)
    ck.ob("C05-c.producer-updates-backpressure", "Inner::feed_data", ok, fd, nrw[0] if nrw else (pushes_fd[0] if pushes_fd else None),
          "feeding a chunk recomputes need_read = len < MAX_BUFFER_SIZE after adding the chunk's length (otherwise a handler that does not poll lets the queue grow with whatever the peer sends)")
    # need_read flag semantics is C07-d; the constant:
    # ---- response bytes buffered ahead of the socket ------------------------------
    presp = disp(prog, "poll_response")
    WB = DF + r"write_buf$"
    enc = []
    for bb, t in presp.calls(r"^<actix_http::h1::codec::Codec as tokio_util::codec::encoder::Encoder<.*>>::encode$"):
        msg = presp.op_expr(t["args"][1])
        if any(is_agg(x, r"Message::Chunk$") and x[3] and is_agg(x[3][0], r"Option::Some$") for x in walk(msg)):
            enc.append(bb)
    ck.anchor("C05-d", len(enc), 2, "encode(Message::Chunk(Some(_))) sites in poll_response")
    wl = cmp_pred("Lt", lambda e: e_has_field(e, WB) and bool(e_calls(e, r"BytesMut::len$")), lambda e: e_has_field(e, DF + r"h1_write_buffer_size$"), True)
    for bb in enc:
        ok, wit = guarded_by(presp, bb, wl)
        again = presp.reach(presp.succ[bb], removed_edges=edges_where(presp, wl)) | presp.reach(presp.succ[bb], removed=cond_eval_blocks(presp, wl))
        ck.ob("C05-d.chunk-append-bounded", "poll_response|%d" % enc.index(bb), ok and bb not in again, presp, bb,
              "a body chunk is appended to write_buf only on the edge write_buf.len() < h1_write_buffer_size, re-tested before every further chunk", witness=presp.path_lines(wit))
    # the body is polled only inside that loop too (no read-ahead of chunks)
    for bb, t in presp.calls(r"MessageBody::poll_next$"):
        ok, wit = guarded_by(presp, bb, wl)
        ck.ob("C05-d.body-poll-bounded", "poll_response|%s" % ("boxed" if "BoxBody" in str(t["fn"].get("selfty")) else "B"), ok, presp, bb, "the response body is polled only while write_buf is below the limit")
    cfgw = prog.find(r"^actix_http::config::ServiceConfig::h1_write_buffer_size$")
    ck.ob("C05-d.limit-from-config", "h1_write_buffer_size", len(cfgw) == 1, cfgw[0] if cfgw else None, None, "limit comes from ServiceConfig::h1_write_buffer_size", nontrivial=False)
    # the bound the dispatcher compares against is the value the application configured, not a value derived from it
    for setter, fld in (("h1_write_buffer_size", "h1_write_buffer_size"),):
        for b in prog.find(r"^actix_http::config::ServiceConfigBuilder::%s$" % setter):
            ws = [(bb, b.rv_expr(s_["rv"], 4)) for bb, i, s_ in b.assigns() if any(isinstance(x, str) and x.endswith("." + fld) for x in s_["p"][1:])]
            ck.anchor("C05-d", len(ws), 1, "write of %s in ServiceConfigBuilder::%s" % (fld, setter))
            for bb, e in ws:
                ck.ob("C05-d.configured-bound-stored-as-given", setter, e[0] == "arg", b, bb, "the configured %s is stored unchanged (the memory bound promised is the one configured): %s" % (fld, short(e, 3)))


def guarded_by_any(body, site, pred):
    """like guarded_by but function-level: every path from entry to the site
    crosses an edge satisfying pred at least once (loop back-edges allowed)"""
    return guarded_by(body, site, pred)


def cond_eval_blocks(body, pred):
    """blocks in which the calls feeding a limit comparison are evaluated
    (a re-test must re-evaluate the length, not reuse a stale boolean)"""
    out = set()
    for a in body.live:
        br = body.branch(a)
        if not br:
            continue
        if any(pred(br[0], lab) for lab, tb in br[1]):
            for c in e_calls(br[0]):
                out.add(c[3])
    return out
