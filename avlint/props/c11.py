"""C11 — request isolation under object recycling (HttpRequest pool, RequestHead pool)."""
from ..rules import *  # noqa

EXPLANATION = (
    "Reset-coverage analysis of the two recycling pools. For HttpRequestInner (actix-web) the field list is read "
    "from the type table; every field except the configuration handle app_state must be overwritten from the new "
    "request, or cleared, on EVERY control-flow path between HttpRequestPool::pop()==Some and the hand-off to the "
    "service (AppInitService::call), or cleared on every path to HttpRequestPool::push (Drop for HttpRequest); "
    "app_data must be cut back to its root element. New values must derive from the current request argument. "
    "push is dominated by Rc::get_mut()==Some (unshared) and is_available(); pop/push have exactly one caller each. "
    "For the RequestHead pool (actix-http) every field is either reset by Head::clear (called on the pooled branch of "
    "get_message) or written by both request constructors (h1 decoder + h1 dispatcher, h2 dispatcher). "
    "A field added later and not reset is reported by name. Leaks through user code cloning Rc's are not decided."
)
RULES = (
    "type-table field enumeration + must-pass-through of a reset effect per field + guarded site (push) + caller sets. "
    "Non-trivial = a per-field path query or a dominance query was evaluated."
)

HRI = "actix_web::request::HttpRequestInner"
FI = r"\.actix_web::request::HttpRequestInner\."
RESET_METHODS = {"clear", "reset", "update", "truncate", "take"}


def field_resets(prog, b, field):
    """blocks of b that assign the field or call a resetting method on it"""
    out = {}
    r = rx(FI + field + "$")
    for bb, i, s in b.assigns():
        fl = [x for x in s["p"][1:] if isinstance(x, str) and x.startswith(".")]
        if fl and r.search(fl[-1]):
            out[bb] = ("assign", b.rv_expr(s["rv"], 8))
    for bb, t in b.calls():
        if not t["args"]:
            continue
        m = cname(t).split("::")[-1]
        if m not in RESET_METHODS:
            continue
        e = b.op_expr(t["args"][0])
        if any(r.search(f) for f in e_fields(e)):
            out[bb] = (m, tuple(b.op_expr(a) for a in t["args"][1:]))
    return out


def run(ck, prog, tier, load):
    adt = prog.adts.get(HRI)
    if adt is None:
        raise AnchorLost("type %s not found" % HRI)
    fields = [f["n"] for f in adt["variants"][0]["fields"]]
    ck.anchor("C11-a", len(fields), 4, "fields of HttpRequestInner")
    call = prog.one(r"^<actix_web::app_service::AppInitService<T, B> as actix_service::Service<actix_http::requests::request::Request>>::call$")
    drop = prog.one(r"^<actix_web::request::HttpRequest as core::ops::drop::Drop>::drop$")

    # pooled branch of `call`
    some_edges = []
    for a in call.live:
        br = call.branch(a)
        if br and br[0][0] == "discr" and e_calls(br[0], r"HttpRequestPool::pop$"):
            some_edges += [tb for lab, tb in br[1] if lab == "Some"]
    ck.anchor("C11-a", len(some_edges), 1, "Some edge of HttpRequestPool::pop() in AppInitService::call")
    handoff = [bb for bb, t in call.calls(r"actix_service::Service::call$|Service<.*>>::call$")]
    ck.anchor("C11-a", len(handoff), 1, "hand-off Service::call in AppInitService::call")
    pushes = [bb for bb, t in drop.calls(r"HttpRequestPool::push$")]
    ck.anchor("C11-a", len(pushes), 1, "HttpRequestPool::push in Drop for HttpRequest")
    if not (some_edges and handoff and pushes):
        return

    # REQ = the incoming-request parameter of AppInitService::call, identified by its type
    REQ = set(args_of_type(call, r"actix_http::requests::request::Request(<.*>)?$"))
    ck.anchor("C11-a", len(REQ), 1, "parameter of type actix_http::Request in AppInitService::call")
    for f in fields:
        if f == "app_state":
            ck.ob("C11-a.exempt", f, True, None, None, "app_state is the per-worker configuration handle (not request data)", nontrivial=False)
            continue
        rc = field_resets(prog, call, f)
        rd = field_resets(prog, drop, f)
        ok_c, wit_c = (False, None)
        if rc:
            ok_c, wit_c = call.must_pass(some_edges, handoff, rc.keys())
        ok_d, wit_d = (False, None)
        if rd:
            ok_d, wit_d = drop.must_pass([0], pushes, rd.keys())
        how = []
        if ok_c:
            how.append("call:" + ",".join(sorted({v[0] for v in rc.values()})))
        if ok_d:
            how.append("drop:" + ",".join(sorted({v[0] for v in rd.values()})))
        ck.ob("C11-a.reset-coverage", f, ok_c or ok_d, call if not ok_c else call, (list(rc) or some_edges)[0],
              "HttpRequestInner.%s reset on every recycle path: %s" % (f, "; ".join(how) or "NOT RESET (stale data of the previous request survives recycling)"),
              witness=call.path_lines(wit_c) if not (ok_c or ok_d) else None)
        # provenance of assigned values in `call`: must come from the `req` argument
        if ok_c:
            for bb, (kind, e) in rc.items():
                if kind == "assign":
                    roots = e_roots(e)
                    from_req = any(r[0] == "arg" and r[1] in REQ for r in roots) or (e[0] == "const")
                    ck.ob("C11-a.provenance", f, from_req, call, bb, "new value of %s derives from the incoming request: %s" % (f, short(e)))
                elif kind == "update":
                    from_req = any(r[0] == "arg" and r[1] in REQ for a in e for r in e_roots(a))
                    ck.ob("C11-a.provenance", f, from_req, call, bb, "%s.update(..) takes the incoming request's URI" % f)
    # sibling agreement: whatever the fresh-object branch takes from the incoming request, the pooled branch installs too
    def sources(e):
        return {c[1] for c in e_calls(e, r"^actix_http::requests::request::Request::") if any(r[0] == "arg" and r[1] in REQ for r in e_roots(c))}

    fresh = [t for bb, t in call.calls(r"^actix_web::request::HttpRequest::new$")]
    ck.anchor("C11-a", len(fresh), 1, "HttpRequest::new in AppInitService::call")
    s_new = set()
    for t in fresh:
        for a in t["args"]:
            s_new |= sources(call.op_expr(a))
    s_pool = set()
    for f in fields:
        for bb, (kind, e) in field_resets(prog, call, f).items():
            if not call.must_pass(some_edges, handoff, [bb])[0]:
                continue
            for x in ([e] if kind == "assign" else list(e)):
                s_pool |= sources(x)
    ck.ob("C11-a.pooled-equals-fresh", "request-derived inputs", bool(s_new) and s_new <= s_pool, call, some_edges[0],
          "request-derived inputs of the fresh branch %s are all installed by the pooled branch %s" % (sorted(x.split("::")[-1] for x in s_new), sorted(x.split("::")[-1] for x in s_pool)))
    # app_data cut to root
    ad = field_resets(prog, drop, "app_data")
    okt = any(k == "truncate" and a and a[0][:3] == ("const", None, 1) for k, a in ad.values())
    ck.ob("C11-a.app-data-root", "app_data", okt, drop, (list(ad) or [0])[0], "app_data.truncate(1): scoped data containers of the previous request are dropped")

    # ---- (b) recycle only when unshared and pool available
    for bb in pushes:
        g1 = has_guard(drop, bb, lambda c: c[0] == "discr" and bool(e_calls(c, r"alloc::rc::Rc.*::get_mut$")) and e_has_field(c, r"\.actix_web::request::HttpRequest\.inner$"), "Some")
        g2 = has_guard(drop, bb, lambda c: bool(e_calls(strip_not(c)[0], r"HttpRequestPool::is_available$")), True)
        ck.ob("C11-b.push-guarded", drop.npath, g1 and g2, drop, bb, "pool.push dominated by Rc::get_mut(&mut self.inner)==Some (%s) and is_available() (%s)" % (g1, g2))
    # ---- (c) who may pop / push
    for name, owner in (("pop", call.npath), ("push", drop.npath)):
        cs = prog.callers(r"^actix_web::request::HttpRequestPool::%s$" % name)
        ck.anchor("C11-c", len(cs), 1, "callers of HttpRequestPool::" + name)
        for b, bb, t in cs:
            ck.ob("C11-c.caller", "%s|%s" % (name, b.npath), b.npath == owner, b, bb, "HttpRequestPool::%s called from %s" % (name, b.npath), nontrivial=False)
    # nobody else touches the pool vector
    for b, bb, t, m in method_calls_on_field(prog, r"\.actix_web::request::HttpRequestPool\.inner$", ["actix_web"]):
        ok = b.npath.startswith("actix_web::request::HttpRequestPool::")
        ck.ob("C11-c.pool-vec", "%s|%s" % (b.npath, m), ok, b, bb, "HttpRequestPool.inner.%s in %s" % (m, b.npath), nontrivial=False)
    # ---- (d) path object re-initialisation
    reset = prog.one(r"^actix_router::path::Path::reset$")
    w_skip = [(bb, e) for (bd, bb, s, e) in writes_of_field(prog, r"\.actix_router::path::Path\.skip$", ["actix_router"]) if bd is reset]
    c_seg = [m for (bd, bb, t, m) in method_calls_on_field(prog, r"\.actix_router::path::Path\.segments$", bodies=[reset])]
    ck.ob("C11-d.path-reset", reset.npath, any(e[:3] == ("const", None, 0) for bb, e in w_skip) and "clear" in c_seg, reset, None,
          "Path::reset sets skip=0 and clears the captured segments")
    url_update(ck, prog, "C11-d")
    # ---- (e) RequestHead pool (actix-http)
    RH = "actix_http::requests::head::RequestHead"
    adt2 = prog.adts.get(RH)
    if adt2 is None:
        raise AnchorLost("type %s not found" % RH)
    f2 = [f["n"] for f in adt2["variants"][0]["fields"]]
    ck.anchor("C11-e", len(f2), 3, "fields of RequestHead")
    clear = prog.one(r"^<actix_http::requests::head::RequestHead as actix_http::message::Head>::clear$")
    gm = prog.one(r"^actix_http::message::MessagePool::get_message$")
    # pooled branch calls clear
    se = []
    for a in gm.live:
        br = gm.branch(a)
        if br and br[0][0] == "discr" and e_calls(br[0], r"Vec.*::pop$"):
            se += [tb for lab, tb in br[1] if lab == "Some"]
    clr = [bb for bb, t in gm.calls(r"message::Head::clear$")]
    okc = bool(se) and bool(clr) and gm.must_pass(se, gm.returns(), clr)[0]
    ck.ob("C11-e.pooled-cleared", gm.npath, okc, gm, clr[0] if clr else None, "a RequestHead popped from the pool is clear()ed on every path before it is handed out")
    FR = r"\.actix_http::requests::head::RequestHead\."
    h1dec = prog.one(r"^<actix_http::requests::request::Request as actix_http::h1::decoder::MessageType>::decode$")
    h1disp = prog.find(r"^actix_http::h1::dispatcher::InnerDispatcher::poll_request$")
    h2disp = prog.find(r"^<actix_http::h2::dispatcher::Dispatcher<T, S, B, X, U> as core::future::future::Future>::poll$")
    ck.anchor("C11-e", len(h1disp) + len(h2disp), 2, "h1 poll_request and h2 Dispatcher::poll")
    for f in f2:
        r = rx(FR + f + "$")

        def writes(b):
            out = []
            for bb, i, s in b.assigns():
                fl = [x for x in s["p"][1:] if isinstance(x, str) and x.startswith(".")]
                if fl and r.search(fl[-1]):
                    out.append(bb)
            for bb, t in b.calls():
                if t["args"] and cname(t).split("::")[-1] == "clear" and any(r.search(x) for x in e_fields(b.op_expr(t["args"][0]))):
                    out.append(bb)
            return out

        wc = writes(clear)
        if wc and clear.must_pass([0], clear.returns(), wc)[0]:
            ck.ob("C11-e.head-field", f, True, clear, wc[0], "RequestHead.%s reset by Head::clear" % f)
            continue
        # not reset by clear(): then every request path must overwrite it on EVERY path to the hand-off, for both protocols
        def covered(b, handoffs):
            w = writes(b)
            return bool(w) and bool(handoffs) and b.must_pass([0], handoffs, w)[0], w
        h1_ok, w1 = covered(h1dec, [bb for bb, e in h1dec.ret_exprs() if agg_chain(e)[0][:2] == ["core::result::Result::Ok", "core::option::Option::Some"]])
        where1 = "Request::decode"
        if not w1:
            for b in h1disp:
                ho = [bb for bb, t in b.calls(r"InnerDispatcher::handle_request$|VecDeque.*::push_back$")]
                ho = [bb for bb in ho if not any(is_agg(x, r"DispatcherMessage::Error$") for x in walk(b.op_expr(b.term(bb)["args"][-1], 4)))]
                h1_ok, w1 = covered(b, ho)
                where1 = "poll_request"
        h2_ok, w2 = False, []
        for b in h2disp:
            ho = [bb for bb, t in b.calls(r"Service.*::call$") if not rx(r"core::ops::function").search(cname(t))]
            h2_ok, w2 = covered(b, ho)
        ck.ob("C11-e.head-field", f, h1_ok and h2_ok, h1dec, None,
              "RequestHead.%s is not reset by clear(); it is overwritten on every path to the hand-off by the h1 request path (%s: %s) and by the h2 request path (%s) — a conditional write leaves the previous request's value in a recycled head" % (f, where1, h1_ok, h2_ok))
    # scoped application data of an earlier request: the container stack discipline (shared with C09-e)
    from .c09 import data_stack_rules
    data_stack_rules(ck, prog, "C11-f")


def last_field_of_stmt(s):
    fl = [x for x in s["p"][1:] if isinstance(x, str) and x.startswith(".")]
    return fl[-1] if fl else None


def url_update(ck, prog, P):
    """Url::update (called when a pooled request object is reused) overwrites both the URI and the cached re-quoted
    path unconditionally; shared by C11 (isolation) and C09 (routing uses this request's path)"""
    upd = prog.one(r"^actix_router::url::Url::update$")
    for fld in ("uri", "path"):
        ws = [bb for bb, i, s in upd.assigns() if (last_field_of_stmt(s) or "").endswith("actix_router::url::Url." + fld)]
        ok, wit = (False, None)
        if ws:
            ok, wit = upd.must_pass([0], upd.returns(), ws)
        ck.ob(P + ".url-update", fld, ok, upd, ws[0] if ws else None, "Url::update overwrites Url.%s on every path (a conditional overwrite lets the previous request's value survive recycling)" % fld, witness=upd.path_lines(wit))
