"""C16 — static files stay inside the root; ranges exact."""
from ..rules import *  # noqa

EXPLANATION = (
    "Static rules over actix_files::{path_buf,service,named,chunked}: (a) single sanitising constructor — PathBufWrap is "
    "constructed only inside parse_path (type-level: its field is private), the value joined onto each served directory "
    "in FilesService::call is a PathBufWrap obtained from parse_path of the unprocessed request path, and no other join "
    "in the service takes request-derived text; (b) the push is fully guarded — every buf.push(segment) in parse_path is "
    "reached only across the false edges of segment == \".\", segment == \"..\", segment.is_empty() and (unless hidden "
    "files are enabled) starts_with('.'), `..` leads to buf.pop(), and every success return on the decoded (Cow::Owned) "
    "path crosses the equal edge of the slash-count comparison computed from the RAW path (a decoded %2F cannot add a "
    "separator), followed by the all-components-Normal re-check; (c) range arithmetic — every arithmetic operation on "
    "the wire-derived range start/length that can overflow is guarded (found and fixed: `offset + length - 1` with "
    "length 0); (d) reader accounting — the chunk size asked from the file is min(size - counter, 64 KiB) re-evaluated "
    "per read, offset and counter advance by the same bytes.len(), and the stream ends exactly at size == counter. "
    "Symlinks, file-system races and the conditional-request decision table are not decided."
)
RULES = "constructor-site census, guarded-site (edge sets), wire-integer taint with guard, per-iteration re-evaluation, provenance slices."

PB = "actix_files::path_buf::PathBufWrap"


def seg_pred(method, const, want, b):
    """edge predicate: `segment.<method>(const)` / `segment == const` has value `want`"""
    def p(c, lab):
        c2, tr = strip_not(c, True)
        if not isinstance(lab, bool) or c2[0] != "call":
            return False
        if not rx(method).search(c2[1] or ""):
            return False
        if const is not None and not any(k[3] == const or k[2] == const for k in e_consts(c2)):
            return False
        return (lab if tr else not lab) is want
    return p


def run(ck, prog, tier, load):
    pp = prog.one(r"^%s::parse_path$" % PB)
    # ---- (a) single constructor ---------------------------------------------------
    n = 0
    for b in prog.bodies.values():
        if b.crate != "actix_files":
            continue
        for bb, i, s in b.assigns():
            if s["rv"]["k"] == "agg" and s["rv"].get("adt") == PB:
                n += 1
                ck.ob("C16-a.constructor-site", b.npath, b is pp or "::tests::" in b.npath, b, bb, "PathBufWrap constructed in %s (only parse_path may)" % b.npath)
    ck.anchor("C16-a", n, 1, "construction sites of PathBufWrap")
    adt = prog.adts.get(PB, {})
    vis = [f["vis"] for v in adt.get("variants", []) for f in v["fields"]]
    ck.ob("C16-a.field-private", "PathBufWrap.0", bool(vis) and all("Restricted" in v for v in vis), None, None, "the wrapped PathBuf is private to the module (%s): outside code cannot build or edit one" % vis, nontrivial=False)
    call = [b for b in prog.find(r"^<actix_files::service::FilesService as actix_service::Service<actix_web::service::ServiceRequest>>::call::\{closure#0\}$")]
    if not call:
        raise AnchorLost("FilesService::call async block not found")
    call = call[0]
    joins = [(bb, t) for bb, t in call.calls(r"std::path::Path::join$|std::path::PathBuf::push$")]
    ck.anchor("C16-a", len(joins), 1, "Path::join in FilesService::call")
    n_req = 0
    for bb, t in joins:
        arg = call.op_expr(t["args"][1])
        from_parse = bool(e_calls(arg, r"PathBufWrap::parse_path$"))
        from_cfg = any(isinstance(p, str) and (p.endswith("FilesServiceInner.index") or ".^" in p) for x in walk(arg) if x[0] == "place" for p in x[2]) and not e_calls(arg, r"HttpRequest|ServiceRequest|match_info|Path::unprocessed")
        if from_parse:
            n_req += 1
        ck.ob("C16-a.join-argument", "join|%s" % ("sanitised" if from_parse else "config" if from_cfg else "other"), from_parse or from_cfg, call, bb, "the path joined onto a served directory is the PathBufWrap from parse_path, or configuration (index file): %s" % short(arg, 3))
    ck.ob("C16-a.request-path-sanitised", "FilesService::call", n_req >= 1, call, None, "the request path reaches the file system only through PathBufWrap::parse_path (%d join(s))" % n_req)
    pcalls = [(bb, t) for bb, t in call.calls(r"PathBufWrap::parse_path$")]
    for bb, t in pcalls:
        src = call.op_expr(t["args"][0])
        ck.ob("C16-a.parses-unprocessed-path", "FilesService::call", bool(e_calls(src, r"Path.*::unprocessed$")), call, bb, "parse_path is given the not-yet-matched part of the request path")

    # ---- (b) the push is fully guarded --------------------------------------------------
    pushes = [bb for bb, t in pp.calls(r"std::path::PathBuf::push$")]
    ck.anchor("C16-b", len(pushes), 1, "buf.push(segment) in parse_path")
    for bb in pushes:
        for name, pred in (
            ("segment != \".\"", seg_pred(r"PartialEq.*::eq$", ".", False, pp)),
            ("segment != \"..\"", seg_pred(r"PartialEq.*::eq$", "..", False, pp)),
            ("!segment.is_empty()", seg_pred(r"core::str::is_empty$", None, False, pp)),
        ):
            ok, wit = guarded_by(pp, bb, pred)
            ck.ob("C16-b.push-guarded", name, ok, pp, bb, "buf.push(segment) is reached only across `%s`" % name, witness=pp.path_lines(wit))
        # hidden files: starts_with('.') false unless hidden_files
        def hidden_ok(c, lab):
            c2, tr = strip_not(c, True)
            if not isinstance(lab, bool):
                return False
            if c2[0] == "arg" and c2[1] in args_of_type(pp, r"^bool$"):
                return (lab if tr else not lab) is True
            return seg_pred(r"core::str::starts_with$", ord("."), False, pp)(c, lab)
        ok, wit = guarded_by(pp, bb, hidden_ok)
        ck.ob("C16-b.push-guarded", "dot-files", ok, pp, bb, "a segment starting with '.' is pushed only when hidden files are enabled", witness=pp.path_lines(wit))
    pops = [bb for bb, t in pp.calls(r"std::path::PathBuf::pop$")]
    ok = bool(pops) and all(guarded_by(pp, bb, seg_pred(r"PartialEq.*::eq$", "..", True, pp))[0] for bb in pops)
    ck.ob("C16-b.dotdot-pops", "parse_path", ok, pp, pops[0] if pops else None, "`..` removes the last pushed component (never escapes above the empty root)")
    # decoded slash: on the Owned edge, success only across count-equal edge; counts from raw path
    oks = [bb for bb, e in pp.ret_exprs() if is_agg(e, r"Result::Ok$")]
    ck.anchor("C16-b", len(oks), 1, "Ok(PathBufWrap(..)) return of parse_path")

    def not_owned(c, lab):
        return c[0] == "discr" and (c[2] or "").endswith("borrow::Cow") and not label_may_be(lab, "Owned")

    def count_equal(c, lab):
        n_ = norm_cmp(c, lab) if isinstance(lab, bool) else None
        if not n_ or n_[0] != "Eq" or n_[3] is not True:
            return False
        return bool(e_calls(n_[2], r"Iterator.*::count$")) or bool(e_calls(n_[1], r"Iterator.*::count$"))

    rem = edges_where(pp, not_owned) | edges_where(pp, count_equal) | pp.dead_edges()
    r = pp.reach([0], removed_edges=rem)
    # assumption: decoding changed the string (Owned). Then success must cross the equal edge.
    r2 = pp.reach([0], removed_edges=edges_where(pp, not_owned) | pp.dead_edges())
    ok = bool(edges_where(pp, count_equal)) and all(bb in r2 for bb in oks) and not any(bb in r for bb in oks)
    ck.ob("C16-b.decoded-slash-rejected", "parse_path", ok, pp, oks[0] if oks else None, "assuming percent-decoding changed the path (Cow::Owned), success is reachable only across the edge where the '/' count still equals the raw path's count")
    # the reference count: the usize variable(s) compared on the count_equal edge, defined by an Iterator::count()
    raw_count = [l for l in user_locals(pp, r"^usize$") if any(e_calls(pp.def_expr(d, 8), r"Iterator.*::count$") for d in pp.defs().get(l, []))]
    raw_args = args_of_type(pp, r"^&str$")
    ok = False
    for l in raw_count:
        for d in pp.defs().get(l, []):
            e = pp.def_expr(d, 8)
            if e_calls(e, r"Iterator.*::count$") and root_is(e, raw_args) and not e_calls(e, r"percent_decode"):
                ok = True
    ck.ob("C16-b.count-from-raw-path", "segment_count", ok, pp, None, "the reference slash count is taken from the raw (undecoded) path argument")
    # the per-segment checks look at the DECODED text, and what is returned is the path assembled from the checked
    # segments (decoding after the checks lets `%2e%2e` and `%2F` through; rebuilding the result bypasses them)
    splits = [(bb, t) for bb, t in pp.calls(r"core::str::<impl str>::split$|str::split$")]
    ck.anchor("C16-b", len(splits), 1, "path.split('/') in parse_path")
    for bb, t in splits:
        recv = pp.op_expr(t["args"][0], 8)
        ck.ob("C16-b.checks-on-decoded", "parse_path", bool(e_calls(recv, r"percent_decode_str$|PercentDecode.*::decode_utf8$")), pp, bb,
              "the text split into segments for the dot/hidden/separator checks is the percent-decoded path: %s" % short(recv, 4))
    pushes_pb = [bb for bb, t in pp.calls(r"PathBuf::push$")]
    BUF = set(base_local(pp, pp.term(bb)["args"][0]) for bb in pushes_pb) - {None}
    wraps = [(bb, s_) for bb, i, s_ in pp.assigns() if s_["rv"]["k"] == "agg" and (s_["rv"].get("adt") or "").endswith("PathBufWrap")]
    ck.anchor("C16-b", len(wraps), 1, "construction of the returned PathBufWrap in parse_path")
    for bb, s_ in wraps:
        src = [base_local(pp, o) for o in s_["rv"]["ops"]]
        ck.ob("C16-b.returned-is-built", "parse_path", bool(src) and all(x in BUF for x in src), pp, bb, "the PathBuf returned is the one the checked segments were pushed onto, untouched (not rebuilt from text afterwards)")
    comp = [a for a in pp.live if pp.branch(a) and pp.branch(a)[0][0] == "discr" and (pp.branch(a)[0][2] or "").endswith("path::Component")]
    ck.ob("C16-b.components-rechecked", "parse_path", bool(comp) and all(pp.dominates(a, o) or o in pp.reach([a]) for a in comp for o in oks), pp, comp[0] if comp else None, "the built path is re-parsed with std and every component must be Component::Normal before Ok is returned")

    # the pre-compressed lookup builds `<parent>/<file name>.gz|br|zst`: for the root itself (an empty request tail) that is a
    # SIBLING of the served directory, so it may only be asked for a path known not to be a directory, or for a file below one
    n_fc = 0
    for fb in prog.find(r"actix_files::service::FilesService as actix_service::Service<.*>>::call"):
        for cb in prog.with_closures(fb):
            for bb, t in cb.calls(r"service::find_compressed$"):
                n_fc += 1
                P = cb.op_expr(t["args"][1], 8)
                pl = base_local(cb, t["args"][1])
                # (local tested, truth) for every dominating Path::is_dir test
                gs = []
                for g, lab, a in cb.guards(bb):
                    if g[0] == "call" and rx(r"Path::is_dir$").search(g[1] or "") and isinstance(lab, bool) and g[3] is not None:
                        gs.append((base_local(cb, cb.term(g[3])["args"][0]), lab))
                not_dir = any(x is not None and x == pl and lab is False for x, lab in gs)
                below_dir = False
                for d in cb.defs().get(pl, []) if pl is not None else []:
                    if d[0] == "call" and rx(r"Path::join$").search(cname(d[2])):
                        parent = base_local(cb, d[2]["args"][0])
                        below_dir = below_dir or any(x is not None and x == parent and lab is True for x, lab in gs)
                ck.ob("C16-b.compressed-lookup-stays-inside", "FilesService::call|%s" % ("file" if not_dir else "index" if below_dir else "?"), not_dir or below_dir, cb, bb,
                      "find_compressed(path) is called only for a path tested not to be a directory, or for a child of a tested directory (its candidate is a sibling of `path`): %s" % short(P, 4))
    ck.anchor("C16-b", n_fc, 1, "calls of find_compressed in FilesService::call")

    # ---- (c) range arithmetic --------------------------------------------------------------
    ir = prog.one(r"^actix_files::named::NamedFile::into_response$")
    tainted = lambda e: any(isinstance(p, str) and (p.endswith("HttpRange.length") or p.endswith("HttpRange.start")) for x in walk(e) if x[0] == "place" for p in x[2])
    n_a = 0
    for b in prog.with_closures(ir):
        for bb in sorted(b.live):
            t = b.term(bb)
            if t["k"] != "assert" or not t["msg"].startswith("Overflow"):
                continue
            ops = [b.op_expr(o) for o in t["mops"]]
            if not any(tainted(o) or root_is(o, user_locals(ir, r"^u64$")) for o in ops):
                continue
            n_a += 1
            op = t["msg"][9:-1]
            if op == "Sub":
                # must be guarded by the minuend being > 0 / >= subtrahend
                def nz(c, lab):
                    c2, tr = strip_not(c, True)
                    n_ = norm_cmp(c, lab) if isinstance(lab, bool) else None
                    if n_ and n_[0] in ("Lt", "Le") and is_const_int(0)(n_[1]) and n_[3] is True and tainted(n_[2]):
                        return True   # 0 < length
                    if n_ and n_[0] == "Le" and n_[3] is False and is_const_int(0)(n_[2]) and tainted(n_[1]):
                        return True   # !(length <= 0)
                    if n_ and n_[0] == "Eq" and n_[3] is False and (is_const_int(0)(n_[2]) or is_const_int(0)(n_[1])) and (tainted(n_[1]) or tainted(n_[2])):
                        return True
                    return False
                ok = guarded_by(b, bb, nz)[0] or any(any(True for _ in c.calls(r"Option.*::filter$")) for c in [b]) and filter_nonzero(prog, b)
                ck.ob("C16-c.range-sub-guarded", "into_response|%s" % short(ops[0], 2), ok, b, bb, "`%s - %s` on a wire-derived range is guarded by a non-zero test of the range length" % (short(ops[0], 3), short(ops[1], 3)))
            else:
                ck.ob("C16-c.range-add", "into_response|%s" % short(ops[0], 2), True, b, bb, "`%s %s %s`: start+length <= file size by http_range's contract (not re-checked here)" % (short(ops[0], 2), op, short(ops[1], 2)), nontrivial=False)
    ck.anchor("C16-c", n_a, 1, "overflow-checked arithmetic on range values in NamedFile::into_response")
    # unsatisfiable / bad Range header exits
    st = {}
    for bb, t in ir.calls(r"HttpResponseBuilder::status$"):
        for k in e_consts(ir.op_expr(t["args"][1])):
            if k[1]:
                st[k[1].split("::")[-1]] = bb
    for code in ("RANGE_NOT_SATISFIABLE", "PARTIAL_CONTENT", "PRECONDITION_FAILED", "NOT_MODIFIED"):
        ck.ob("C16-c.status-exit", code, code in st, ir, st.get(code), "NamedFile::into_response has a %s exit" % code, nontrivial=False)
    if "PARTIAL_CONTENT" in st:
        # the status is set under a bool variable that becomes true only after HttpRange::parse produced a range
        rp = [bb for bb, t in ir.calls(r"HttpRange::parse$")]
        ok = False
        for l in locals_guarding(ir, st["PARTIAL_CONTENT"], True):
            trues = [d for d in ir.defs().get(l, []) if ir.def_expr(d, 3)[:3] == ("const", None, 1)]
            ok = ok or (bool(trues) and bool(rp) and all(any(ir.dominates(r_, d[1]) for r_ in rp) for d in trues))
        ck.ob("C16-c.partial-only-when-ranged", "206", ok, ir, st["PARTIAL_CONTENT"], "206 is set only when a satisfiable range was parsed")

    # the range parser is told the real length of the file: every clamp and the 416 decision depend on it
    hp = prog.one(r"^actix_files::range::HttpRange::parse$")
    inner = [(bb, t) for bb, t in hp.calls(r"http_range::HttpRange::parse$")]
    ck.anchor("C16-c", len(inner), 1, "http_range::HttpRange::parse in actix_files::range::HttpRange::parse")
    for bb, t in inner:
        a = hp.op_expr(t["args"][1], 4)
        ck.ob("C16-c.range-size-unaltered", "range::HttpRange::parse", a[0] == "arg", hp, bb, "the size given to the range parser is the caller's `size` itself (no clamp or offset): %s" % short(a, 3))
    for bb, t in ir.calls(r"actix_files::range::HttpRange::parse$|range::HttpRange::parse$"):
        a = ir.op_expr(t["args"][1], 6)
        from_md = bool(e_calls(a, r"Metadata::len$")) or any(any(e_calls(ir.def_expr(d, 4), r"Metadata::len$") for d in ir.defs().get(r_[1], [])) for r_ in e_roots(a) if r_[0] in ("var", "phi"))
        ck.ob("C16-c.range-size-is-file-length", "into_response", from_md and not e_bins(a), ir, bb, "NamedFile passes the file's metadata length to the range parser: %s" % short(a, 3))
    # RFC 7232 section 6: a failed If-Match / If-Unmodified-Since (412) wins over a satisfied If-None-Match / If-Modified-Since (304)
    if "PRECONDITION_FAILED" in st and "NOT_MODIFIED" in st:
        PF = set(locals_guarding(ir, st["PRECONDITION_FAILED"], True))
        ck.anchor("C16-c", len(PF), 1, "bool variable under whose true edge 412 is answered (precondition failed)")
        ok_p = guarded_by(ir, st["NOT_MODIFIED"], lambda c, lab: bool(bool_test(c, lab)) and is_local(bool_test(c, lab)[0], PF) and bool_test(c, lab)[1] is False)[0]
        ck.ob("C16-c.precondition-before-not-modified", "into_response", ok_p, ir, st["NOT_MODIFIED"], "304 is answered only on the edge where the precondition did not fail: when both families of conditional headers are present and disagree the answer is 412")

    # ---- (d) reader accounting -----------------------------------------------------------------
    pn = prog.one(r"^<actix_files::chunked::ChunkedReadFile<F, Fut> as futures_core::stream::Stream>::poll_next$")
    CF = r"\.actix_files::chunked::(ChunkedReadFile|__ChunkedReadFileProjection|ChunkedReadFileProj)\."
    cb = [bb for bb, t in pn.calls(r"Fn.*::call$|FnMut.*::call_mut$|FnOnce.*::call_once$")]
    ck.anchor("C16-d", len(cb), 1, "file-read callback invocation in ChunkedReadFile::poll_next")
    for bb in cb:
        t = pn.term(bb)
        args = pn.op_expr(t["args"][1])
        mins = e_calls(args, r"core::cmp::min$")
        ok = False
        for m in mins:
            sat = e_calls(m, r"saturating_sub$|checked_sub$")
            ok = ok or (bool(sat) and any(k[2] is not None and k[2] > 0 for k in e_consts(m)) and any(e_has_field(s_, r"\.size$") for s_ in sat) and any(e_has_field(s_, r"\.counter$") for s_ in sat))
        ck.ob("C16-d.read-size-clamped", "poll_next", ok, pn, bb, "the number of bytes requested from the file is min(size.saturating_sub(counter), CHUNK), computed for this read: %s" % short(args, 4))
        # computed per read: the min() call lies in the same iteration (dominated by the File-state arm)
        fresh = all(any(c[0] == "discr" and lab == "File" for c, lab, a in pn.guards(m[3])) for m in mins) if mins else False
        ck.ob("C16-d.read-size-fresh", "poll_next", fresh, pn, bb, "that clamp is evaluated inside the read arm (not hoisted to construction time)")
    adv = {}
    for bb, i, s in pn.assigns():
        fl = [x for x in s["p"][1:] if isinstance(x, str) and x.startswith(".")]
        for f in ("offset", "counter"):
            if fl and fl[-1].endswith("." + f) and s["rv"]["k"] != "ref":
                adv[f] = pn.rv_expr(s["rv"], 6)
    ok = set(adv) == {"offset", "counter"} and all(e_calls(e, r"Bytes::len$") and e_bins(e, ("Add", "AddWithOverflow")) for e in adv.values())
    same = ok and canon([c for c in e_calls(adv["offset"], r"Bytes::len$")][0][2][0], 6) == canon([c for c in e_calls(adv["counter"], r"Bytes::len$")][0][2][0], 6)
    ck.ob("C16-d.offset-counter-agree", "poll_next", ok and same, pn, None, "offset and counter advance by the length of the same chunk that is yielded")
    nones = ret_sites(pn, lambda e: agg_chain(e)[0][:2] == ["core::task::poll::Poll::Ready", "core::option::Option::None"])
    ok = bool(nones) and all(guarded_by(pn, bb, cmp_pred("Eq", lambda e: True, lambda e: True, True))[0] for bb, e in nones)
    ck.ob("C16-d.ends-at-size", "poll_next", ok, pn, nones[0][0] if nones else None, "the stream ends exactly on the edge size == counter")

    # a directory listing is produced only when listings are enabled: both the record of "the directory to list" and the
    # renderer call sit behind show_index
    for fb in prog.find(r"actix_files::service::FilesService as actix_service::Service<.*>>::call"):
        for cb in prog.with_closures(fb):
            if cb is fb:
                continue
            show = lambda c, lab: bool(bool_test(c, lab)) and bool_test(c, lab)[1] is True and e_has_field(bool_test(c, lab)[0], r"FilesService(Inner)?\.show_index$")
            for l in user_locals(cb, r"Option<\(.*PathBuf.*PathBuf"):
                for d in cb.defs().get(l, []):
                    e = cb.def_expr(d, 3)
                    if is_agg(e, r"Option::Some$"):
                        ok, wit = guarded_by(cb, d[1], show)
                        ck.ob("C16-b.listing-only-when-enabled", "FilesService::call|record", ok, cb, d[1], "the directory to be listed is recorded only under show_index (otherwise a directory without its index file is answered 404, not listed)", witness=cb.path_lines(wit))


def filter_nonzero(prog, b):
    """the range option is filtered by `range.length > 0` in a closure of b"""
    for c in prog.with_closures(b):
        if c is b:
            continue
        for bb, e in c.ret_exprs():
            n_ = norm_cmp(e, True)
            if n_ and any(isinstance(p, str) and p.endswith("HttpRange.length") for x in walk(e) if x[0] == "place" for p in x[2]):
                # length > 0  == !(length <= 0)
                if (n_[0] == "Le" and n_[3] is False and is_const_int(0)(n_[2])) or (n_[0] == "Lt" and n_[3] is True and is_const_int(0)(n_[1])) or (n_[0] == "Eq" and n_[3] is False):
                    return True
    return False
