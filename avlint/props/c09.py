"""C09 — app routing: first registered match, exact parameters, innermost data."""
from ..rules import *  # noqa
from . import c10 as _c10

EXPLANATION = (
    "Static rules over actix_router::router and actix_web::{app_service,scope,resource,service,request}: (a) first match "
    "in registration order — Router::recognize_fn / recognize_mut_fn and ResourceService::call iterate their route "
    "lists with a forward iterator and return on the first accepted candidate; on the whole build pipeline the "
    "operations applied to the route/service vectors are order-preserving (push, iteration, map/collect, drain/take) "
    "and never sort, reverse, insert, swap, pop, dedup or retain; (b) a rejected candidate leaves no trace — the "
    "resource path is mutated only on the accepting edge of the guard check (shared with C10); (c) the two routers "
    "(AppRouting::call and ScopeService::call) perform the same guarded effects (recognise with an all-guards check, "
    "push_resource_id, mark_resource_path, else the default service); (d) percent-decoding cannot move a segment "
    "boundary: the URL quoter protects '/', '%' and '+', and pattern literals reach the regex only escaped (shared with "
    "C10); (e) innermost data wins — data containers are only pushed while descending, cut back to the root on "
    "recycling, and both app_data lookups iterate in reverse. 404/405 selection and the semantics of a concrete route "
    "table are not decided."
)
RULES = "field effect sets over route vectors, iteration-direction checks, guarded-site, sibling agreement, shared regex-fragment provenance."

ORDER_BREAKING = {"sort", "sort_by", "sort_by_key", "sort_unstable", "sort_unstable_by", "sort_unstable_by_key", "sort_by_cached_key", "reverse", "insert", "swap", "swap_remove", "pop", "dedup", "dedup_by", "dedup_by_key", "retain", "retain_mut", "remove", "rotate_left", "rotate_right", "splice", "truncate"}
ROUTE_FIELDS = [
    r"\.actix_router::router::Router\.routes$",
    r"\.actix_router::router::RouterBuilder\.routes$",
    r"\.actix_web::app_service::AppRoutingFactory\.services$",
    r"\.actix_web::scope::ScopeFactory\.services$",
    r"\.actix_web::scope::Scope\.services$",
    r"\.actix_web::app::App\.services$",
    r"\.actix_web::config::AppService\.services$",
    r"\.actix_web::resource::Resource\.routes$",
    r"\.actix_web::resource::ResourceService\.routes$",
    r"\.actix_web::resource::ResourceFactory\.routes$",
]


def effects_of(b, region=None):
    out = set()
    for bb in sorted(b.live if region is None else region):
        t = b.term(bb)
        if t["k"] != "call":
            continue
        n = cname(t)
        for pat, lab in ((r"Router.*::recognize_fn$", "recognize_fn"), (r"ServiceRequest::push_resource_id$", "push_resource_id"), (r"ServiceRequest::mark_resource_path$", "mark_resource_path"),
                         (r"ResourceMap::is_resource_path_match$", "is_resource_path_match"), (r"Service.*::call$", "service.call")):
            if rx(pat).search(n):
                gs = frozenset("%s=%s" % (canon(c, 4), lab_s(l)) for c, l, a in b.guards(bb))
                recv = canon(b.op_expr(t["args"][0]), 3) if lab == "service.call" and t["args"] else ""
                out.add((lab + ("(" + recv.split(".")[-1] + ")" if recv else ""), gs))
    return out


def run(ck, prog, tier, load):
    # ---- (a) first match, registration order --------------------------------------
    for name in ("recognize_fn", "recognize_mut_fn"):
        b = prog.one(r"^actix_router::router::Router::%s$" % name)
        calls = {cname(t) for bb, t in b.calls()}
        fwd = any(rx(r"slice::iter::Iter.*Iterator>::next$|slice::iter::IterMut.*Iterator>::next$|Iterator>::next$").search(n) for n in calls)
        bad = [n for n in calls if rx(r"::rev$|next_back$|::rfind$|::rposition$|DoubleEndedIterator").search(n)]
        ck.ob("C09-a.forward-iteration", name, fwd and not bad, b, None, "%s walks the route list front to back (no rev/next_back)" % name)
        somes = ret_sites(b, lambda e: is_agg(e, r"Option::Some$"))
        ok = bool(somes) and all(any(strip_not(c)[0][0] == "call" and rx(r"ResourceDef::capture_match_info_fn$").search(strip_not(c)[0][1] or "") and (l if strip_not(c)[1] else not l) is True for c, l, a in b.guards(bb) if isinstance(l, bool)) for bb, e in somes)
        ck.ob("C09-a.return-first-accepted", name, ok, b, somes[0][0] if somes else None, "returns as soon as capture_match_info_fn accepts a candidate (the first registered match wins)")
        it = [bb for bb, t in b.calls(r"slice.*::iter(_mut)?$") if e_has_field(b.op_expr(t["args"][0]), ROUTE_FIELDS[0])]
        ck.ob("C09-a.iterates-routes", name, bool(it), b, it[0] if it else None, "the iteration is over Router.routes", nontrivial=False)
    rs = prog.one(r"^<actix_web::resource::ResourceService as actix_service::Service<actix_web::service::ServiceRequest>>::call$")
    calls = {cname(t) for bb, t in rs.calls()}
    bad = [n for n in calls if rx(r"::rev$|next_back$").search(n)]
    rets = [bb for bb, t in rs.calls(r"Route.*Service.*::call$|route::Route.*::call$|actix_service::Service::call$")]
    guarded = [bb for bb in rets if any(strip_not(c)[0][0] == "call" and rx(r"Route.*::check$").search(strip_not(c)[0][1] or "") for c, l, a in rs.guards(bb))]
    ck.ob("C09-a.resource-first-route", "ResourceService::call", not bad and bool(guarded), rs, guarded[0] if guarded else None, "the first route whose guards accept is called; forward iteration")
    # order-preserving pipeline
    n_eff = 0
    for fpat in ROUTE_FIELDS:
        for b, bb, t, m in method_calls_on_field(prog, fpat, ["actix_router", "actix_web"]):
            if "::tests::" in b.npath or b.npath.endswith("::fmt"):
                continue
            n_eff += 1
            if m in ORDER_BREAKING:
                ck.ob("C09-a.order-preserving", "%s|%s" % (fpat.split("\\.")[-1].replace("$", ""), m), False, b, bb, "order-changing operation %s on the route list %s in %s" % (m, fpat, b.npath))
    ck.anchor("C09-a", n_eff, 4, "method calls on route/service vectors")
    ck.ob("C09-a.order-preserving", "all", True, None, None, "no sort/reverse/insert/swap/pop/dedup/retain/remove on any route or service vector (%d uses inspected)" % n_eff)
    # builders: bodies that build routers must not reverse either
    for b in prog.find(r"^(<actix_web::(app_service::AppRoutingFactory|scope::ScopeFactory|resource::ResourceFactory) as actix_service::ServiceFactory<.*>>::new_service|actix_router::router::RouterBuilder::(push|finish|path|prefix|service))"):
        for c in prog.with_closures(b):
            bad = [cname(t) for bb, t in c.calls(r"::rev$|::sort|::reverse$|next_back$")]
            ck.ob("C09-a.builder-order", c.npath.split("::")[-2] + "::" + c.npath.split("::")[-1], not bad, c, None, "router construction keeps registration order", nontrivial=False)

    # ---- (b) rejected candidate leaves no trace (shared with C10-a) ---------------------
    cm = prog.one(r"^actix_router::resource::ResourceDef::capture_match_info_fn$")
    muts = [bb for bb, t in cm.calls(r"actix_router::path::Path.*::(add|skip)$")]
    ck.anchor("C09-b", len(muts), 2, "Path::add / Path::skip in capture_match_info_fn")
    for bb in muts:
        ok = any(strip_not(c)[0][0] == "call" and rx(r"call_once$").search(strip_not(c)[0][1] or "") and (l if strip_not(c)[1] else not l) is True for c, l, a in cm.guards(bb) if isinstance(l, bool))
        ck.ob("C09-b.mutation-after-check", cname(cm.term(bb)).split("::")[-1], ok, cm, bb, "path parameters are recorded only after the guard check accepted the candidate")

    # ---- (c) sibling routers ---------------------------------------------------------------
    ar = prog.one(r"^<actix_web::app_service::AppRouting as actix_service::Service<actix_web::service::ServiceRequest>>::call$")
    sc = prog.one(r"^<actix_web::scope::ScopeService as actix_service::Service<actix_web::service::ServiceRequest>>::call$")
    ea, eb = effects_of(ar), effects_of(sc)
    ck.anchor("C09-c", min(len(ea), len(eb)), 2, "routing effects in AppRouting::call / ScopeService::call")
    oa = sorted(e for e, g in ea - eb)
    ob = sorted(e for e, g in eb - ea)
    ck.ob("C09-c.routers-agree", "AppRouting~ScopeService", not oa and not ob, ar, None, "both routers perform the same guarded effects (only in app: %s; only in scope: %s)" % (oa, ob))
    for b in (ar, sc):
        clo = [c for c in prog.with_closures(b) if c is not b]
        ok = any(any(True for _ in c.calls(r"Iterator::all$|Iterator>::all$")) for c in clo) and any(any(True for _ in c2.calls(r"Guard::check$")) for c in clo for c2 in prog.with_closures(c))
        ck.ob("C09-c.all-guards", b.npath.split(" as ")[0].split("::")[-1], ok, b, None, "a candidate is accepted only if ALL its guards accept (Iterator::all over Guard::check)")

    # ---- (d) decoding cannot move a boundary --------------------------------------------------
    strs = set()
    for b in prog.find(r"^actix_router::url::DEFAULT_QUOTER"):
        for bb, t in b.calls():
            for a in t["args"]:
                for k in e_consts(b.op_expr(a, 3)):
                    if k[3] is not None:
                        strs.add(k[3])
    prot = set("".join(strs))
    ck.ob("C09-d.protected-set", "DEFAULT_QUOTER", {"/", "%", "+"} <= prot, None, None, "the URL quoter protects '/', '%%' and '+' (literals: %s): decoding never creates a segment boundary" % sorted(strs))
    parse = prog.one(r"^actix_router::resource::ResourceDef::parse$")
    n_p = 0
    re_locals = set(user_locals(parse, r"^alloc::string::String$"))
    for bb, t in parse.calls(r"alloc::string::String::push_str$"):
        bl = base_local(parse, t["args"][0])
        if bl is None or bl not in re_locals:
            continue
        n_p += 1
        arg = parse.op_expr(t["args"][1])
        lit = arg[0] == "const" or (e_consts(arg) and not [r for r in e_roots(arg) if r[0] in ("arg", "var", "phi", "call")])
        ok = lit or bool(e_calls(arg, r"regex_syntax::escape$|regex::escape$|regex_lite::(hir::)?escape$")) or _c10.is_regex_part(arg)
        ck.ob("C09-d.literal-escaped", "push#%d" % n_p, ok, parse, bb, "pattern text reaches the route regex only escaped (an unescaped '.' would match '/' and cross a segment boundary)")
    ck.anchor("C09-d", n_p, 2, "regex fragments pushed in ResourceDef::parse")

    data_stack_rules(ck, prog, "C09-e")
    # ---- (f) a default service survives configure() -----------------------------------------------
    # `scope.default_service(D).configure(f)`: the builder's default may be replaced only by a default that the
    # configuration closure actually supplied; assigning the (possibly empty) option drops D, so unmatched requests fall
    # through to an outer default
    cfgs = prog.find(r"^actix_web::(scope::Scope|app::App)(<.*>)?::configure$")
    ck.anchor("C09-f", len(cfgs), 2, "App::configure and Scope::configure")
    for b in cfgs:
        ws = [(bb, s) for bb, i, s in b.assigns() if any(isinstance(x, str) and x.endswith(".default") for x in s["p"][1:]) and len(s["p"]) == 2]
        for bb, s in ws:
            e = b.rv_expr(s["rv"], 6)
            some = is_agg(e, r"Option::Some$")
            guarded = any(c[0] == "discr" and e_has_field(c, r"ServiceConfig\.default$") and lab == "Some" for c, lab, a in b.guards(bb))
            ck.ob("C09-f.configure-keeps-default", b.npath.split("::")[-2] + "::configure", some and guarded, b, bb,
                  "the builder's default service is overwritten only with Some(default) taken on the Some edge of the configuration's default (never with an empty option)")
    # routing matches the path of THIS request: the recycled Url object is overwritten completely (shared with C11-d)
    from .c11 import url_update
    url_update(ck, prog, "C09-d")

    # ---- (b) a route keeps the guards it was given: every builder step hands back the same route -----------------
    nb = 0
    for b in prog.find(r"^actix_web::route::Route::(service|to|method|guard|wrap)$"):
        me = args_of_type(b, r"^actix_web::route::Route$")
        rets = b.ret_exprs()
        def keeps(e):
            if is_local(e, me):
                return True
            if is_agg(e, r"route::Route$"):
                return any(root_is(o, me) and e_has_field(o, r"Route\.guards$") for o in e[3] if isinstance(o, tuple))
            return False
        ok = bool(me) and bool(rets) and all(keeps(e) for bb, e in rets)
        nb += 1
        ck.ob("C09-b.builder-keeps-guards", "Route::" + b.npath.split("::")[-1], ok, b, rets[0][0] if rets else None,
              "the route handed back by the builder step is the receiver (or is rebuilt with the receiver's guard list): guards registered before .to()/.service() still select the route")
    ck.anchor("C09", nb, 5, "Route builder steps (service, to, method, guard, wrap)")


def data_stack_rules(ck, prog, P):
    """the per-request stack of data containers: root at index 0, scope/resource containers pushed while descending,
    cut back to the root when the request object is recycled, searched innermost-first; shared by C09 (innermost
    registration wins) and C11 (scoped data of an earlier request is not visible later)"""
    # ---- (e) innermost data wins ------------------------------------------------------------------
    AD = r"\.actix_web::request::HttpRequestInner\.app_data$"
    for b, bb, t, m in method_calls_on_field(prog, AD, ["actix_web"]):
        if "::tests::" in b.npath:
            continue
        fn = b.npath
        if m == "push":
            ok = fn.endswith("ServiceRequest::add_data_container") or fn.endswith("HttpRequest::new")
            ck.ob(P + ".data-stack-effect", "%s|push" % fn.split("::")[-1], ok, b, bb, "app_data.push in %s (containers are only added while descending into a scope/resource)" % fn)
        elif m == "truncate":
            k = b.op_expr(t["args"][1])
            ok = fn.endswith("Drop>::drop") and k[:3] == ("const", None, 1)
            ck.ob(P + ".data-stack-effect", "%s|truncate" % fn.split("::")[-1], ok, b, bb, "app_data.truncate(1) on recycling keeps only the application root container")
        elif m in ORDER_BREAKING or m in ("clear", "drain", "extend", "append"):
            ck.ob(P + ".data-stack-effect", "%s|%s" % (fn.split("::")[-1], m), False, b, bb, "unexpected %s on the data-container stack" % m)
    dr = prog.one(r"^<actix_web::request::HttpRequest as core::ops::drop::Drop>::drop$")
    tr = [bb for (bd, bb, t, m) in method_calls_on_field(prog, AD, bodies=[dr]) if m == "truncate"]
    ps = [bb for bb, t in dr.calls(r"HttpRequestPool::push$")]
    ck.ob(P + ".stack-cut-on-recycle", "Drop for HttpRequest", bool(tr) and bool(ps) and dr.must_pass([0], ps, tr)[0], dr, tr[0] if tr else None, "every path that returns the request object to the pool cuts the data stack back to the root")
    for pat in (r"^actix_web::request::HttpRequest::app_data$", r"^actix_web::service::ServiceRequest::app_data$"):
        b = prog.one(pat)
        names = {cname(t) for bb, t in b.calls()}
        ok = any(rx(r"::rev$").search(n) for n in names) and any(rx(r"Rev<.*Iterator>::next$|rev::Rev.*next$").search(n) for n in names)
        somes = ret_sites(b, lambda e: is_agg(e, r"Option::Some$"))
        ck.ob(P + ".lookup-innermost-first", b.npath.split("::")[-2] + "::app_data", ok and bool(somes), b, None, "app_data() searches the container stack from the innermost registration outwards and returns the first hit")
    for b in prog.find(r"^<actix_web::(scope::ScopeService|resource::ResourceService|app_service::AppRouting) as actix_service::Service<actix_web::service::ServiceRequest>>::call$"):
        pass
    adders = prog.callers(r"^actix_web::service::ServiceRequest::add_data_container$")
    ck.anchor(P, len(adders), 2, "callers of add_data_container (scope and resource middleware)")
