"""Shared queries for the HTTP/1 dispatcher rules (C01–C06)."""
from .rules import *  # noqa

D = "actix_http::h1::dispatcher::"
DF = r"\.actix_http::h1::dispatcher::InnerDispatcher(Proj)?\."
FLAGS_F = DF + r"flags$"
FLAG_NAMES = ("STARTED", "FINISHED", "KEEP_ALIVE", "SHUTDOWN", "READ_DISCONNECT", "WRITE_DISCONNECT", "LINGER", "DRAINING")


def disp(prog, name):
    return prog.one(r"^actix_http::h1::dispatcher::InnerDispatcher::%s$" % name)


def disp_poll(prog):
    return prog.one(r"^<actix_http::h1::dispatcher::Dispatcher<T, S, B, X, U> as core::future::future::Future>::poll$")


def flag_consts(e):
    """names of dispatcher Flags constants mentioned in an expression"""
    out = set()
    for c in e_consts(e):
        if c[1] and rx(r"^actix_http::h1::dispatcher::(_|Flags)::[A-Z_]+$").search(c[1]):
            out.add(c[1].split("::")[-1])
    return out


def is_flags_recv(e):
    """expression denotes the dispatcher's flags word (field or &mut Flags param)"""
    if e_has_field(e, FLAGS_F):
        return True
    for r in e_roots(e):
        if r[0] == "arg":  # a `&mut Flags` parameter (the callee path already pins the type to the dispatcher's Flags)
            return True
    return False


def flag_ops(body):
    """[(bb, op, flags:set, term)] for insert/remove/set/toggle on the flags word"""
    out = []
    for bb, t in body.calls(r"^actix_http::h1::dispatcher::_::(insert|remove|set|toggle)$"):
        recv = body.op_expr(t["args"][0])
        if not is_flags_recv(recv):
            continue
        op = cname(t).split("::")[-1]
        fl = flag_consts(body.op_expr(t["args"][1]))
        out.append((bb, op, fl, t))
    return out


def flag_test(c):
    """('contains'|'intersects', flags:set, truth_when_cond_true) for conditions
    testing the dispatcher flags"""
    c2, tr = strip_not(c, True)
    if c2[0] == "call" and rx(r"^actix_http::h1::dispatcher::_::(contains|intersects)$").search(c2[1] or "") and len(c2[2]) == 2:
        if is_flags_recv(c2[2][0]):
            return c2[1].split("::")[-1], flag_consts(c2[2][1]), tr
    return None


def flag_edge(flag, value):
    """edge predicate: on this edge `flag` is known to be `value`"""

    def p(c, lab):
        ft = flag_test(c)
        if not ft or not isinstance(lab, bool):
            return False
        fn, fl, tr = ft
        v = lab if tr else (not lab)
        if flag not in fl:
            return False
        if value is True:
            # contains(all of fl) true => each is set
            return fn == "contains" and v is True
        # intersects(any of fl) false => each clear ; contains({flag}) false => clear
        return (fn == "intersects" and v is False) or (fn == "contains" and fl == {flag} and v is False)

    return p


def fn_sets_flag(prog, b, flag, depth=3, _seen=None):
    """does body b (or a local callee, depth-bounded) insert/set `flag`?"""
    _seen = _seen if _seen is not None else set()
    if b.path in _seen:
        return False
    _seen.add(b.path)
    for bb, op, fl, t in flag_ops(b):
        if op in ("insert", "set", "toggle") and flag in fl:
            return True
    if depth > 0:
        for bb, t in b.calls(r"^actix_http::h1::"):
            cb = prog.resolve(t)
            if cb is not None and fn_sets_flag(prog, cb, flag, depth - 1, _seen):
                return True
    return False


def blocks_setting_flag(prog, b, flag, depth=3):
    out = set()
    for bb, op, fl, t in flag_ops(b):
        if op in ("insert", "set", "toggle") and flag in fl:
            out.add(bb)
    for bb, t in b.calls(r"^actix_http::h1::"):
        cb = prog.resolve(t)
        if cb is not None and cb.path != b.path and fn_sets_flag(prog, cb, flag, depth - 1):
            out.add(bb)
    return out


def is_noise(body, bb):
    """block belongs to a tracing/log macro expansion"""
    m = body.term(bb).get("mac")
    return bool(m) and any(x in ("trace", "debug", "error", "warn", "info", "event", "log") for x in m)
