"""Byte value-set analysis (template T7): for a body that reads one input byte
and dispatches on it, propagate a set of possible byte values (a 256-element
set, a finite abstract domain) through the comparison/switch DAG and report
byte -> set of outcomes. No code is executed; every branch not on the byte is
followed both ways."""
from .rules import *  # noqa


def _strip_cast(e):
    while isinstance(e, tuple) and e[0] == "cast":
        e = e[1]
    return e


def byte_locals(body):
    """locals of type u8 defined by indexing a slice"""
    out = []
    for bb, i, s in body.assigns():
        if len(s["p"]) == 1 and body.lty(s["p"][0]) == "u8" and s["rv"]["k"] == "use":
            op = s["rv"]["ops"][0]
            pl = op.get("copy") or op.get("move")
            if pl and any(isinstance(x, str) and x.startswith("[") for x in pl[1:]):
                out.append((s["p"][0], bb))
    return out


def outcome(e):
    names, inner = agg_chain(e)
    short_names = [n.split("::")[-1] for n in names]
    if short_names[:1] == ["Pending"]:
        return "Pending"
    if short_names[:2] == ["Ready", "Err"] or short_names[:1] == ["Err"]:
        return "Err"
    if short_names[:2] == ["Ready", "Ok"] and len(short_names) > 2:
        return short_names[2]
    if short_names[:1] == ["Some"] and len(short_names) > 1:
        return short_names[1]
    if short_names[:1] in (["None"], ["Some"]):
        return short_names[0]
    if e[0] == "const":
        return "const:%s" % (e[2] if e[2] is not None else e[3])
    return "?" + short(e, 2)


def byte_table(body, byte_expr=None, start=None, dead=()):
    """returns (table, info): table maps byte value -> frozenset of outcomes"""
    if byte_expr is None:
        bl = byte_locals(body)
        if not bl:
            return None, "no byte read found"
        loc, start = bl[0]
        byte_expr = body.local_expr(loc)
    dead = set(dead)
    full = frozenset(range(256))
    state = {start: set(full)}
    work = [start]
    seen_edges = {}
    while work:
        b = work.pop()
        v = state[b]
        t = body.term(b)
        outs = []
        if t["k"] == "switch":
            e = _strip_cast(body.op_expr(t["d"]))
            if e == byte_expr:
                used = set()
                for val, tb in t["ts"]:
                    outs.append((tb, v & {val}))
                    used.add(val)
                outs.append((t["o"], v - used))
            else:
                n = norm_cmp(e, True)
                done = False
                if n:
                    op, a, c, truth = n
                    a2, c2 = _strip_cast(a), _strip_cast(c)
                    sel = None
                    if a2 == byte_expr and c2[0] == "const" and c2[2] is not None:
                        k = c2[2]
                        sel = {"Lt": lambda x: x < k, "Le": lambda x: x <= k, "Eq": lambda x: x == k}[op]
                    elif c2 == byte_expr and a2[0] == "const" and a2[2] is not None:
                        k = a2[2]
                        sel = {"Lt": lambda x: k < x, "Le": lambda x: k <= x, "Eq": lambda x: k == x}[op]
                    if sel is not None:
                        tset = {x for x in v if sel(x) == truth}
                        for val, tb in t["ts"]:
                            # bool switch: ts = [(0, bbF)], otherwise = true
                            outs.append((tb, (v - tset) if val == 0 else tset))
                        outs.append((t["o"], tset if all(val == 0 for val, _ in t["ts"]) else (v - tset)))
                        done = True
                if not done:
                    for s in body.succ[b]:
                        outs.append((s, set(v)))
        else:
            for s in body.succ[b]:
                outs.append((s, set(v)))
        for s, vs in outs:
            if not vs or (b, s) in dead:
                continue
            old = state.get(s)
            if old is None:
                state[s] = set(vs)
                work.append(s)
            elif not vs <= old:
                old |= vs
                work.append(s)
    table = {x: set() for x in range(256)}
    for d in body.defs().get(0, []):
        bb = d[1]
        if bb in state:
            o = outcome(body.def_expr(d, 8))
            for x in state[bb]:
                table[x].add(o)
    return {k: frozenset(v) for k, v in table.items()}, "ok"


def classes(table):
    """invert: outcome-set -> sorted byte list, rendered compactly"""
    inv = {}
    for b, o in table.items():
        inv.setdefault(o, []).append(b)
    out = {}
    for o, bs in inv.items():
        bs.sort()
        rs = []
        i = 0
        while i < len(bs):
            j = i
            while j + 1 < len(bs) and bs[j + 1] == bs[j] + 1:
                j += 1
            rs.append("%02x" % bs[i] if i == j else "%02x-%02x" % (bs[i], bs[j]))
            i = j + 1
        out["/".join(sorted(o))] = ",".join(rs)
    return out
