//! Miniature good/bad programs, one pair per engine primitive the property
//! rules rest on. Compiled through the same `factgen` driver as /repo and
//! queried by avlint/controls.py on every check invocation: each primitive
//! must accept the good twin and reject the bad one, otherwise the checker
//! itself is broken (exit 2, never a VIOLATION).
#![allow(dead_code, clippy::all)]

use std::task::Poll;

pub struct Chan {
    buf: Vec<u8>,
    len: usize,
    limit: usize,
    eof: bool,
    woken: bool,
    state: St,
    scratch: Vec<u8>,
    name: String,
}

#[derive(Clone, Copy, PartialEq, Eq)]
pub enum St {
    Open,
    Closing,
    Closed,
}

pub enum Step {
    Digit,
    Cr,
    Ext,
    Bad,
}

fn fill(n: &mut usize) {
    *n += 1;
}

impl Chan {
    fn wake(&mut self) {
        self.woken = true;
    }
    fn dispatch(&mut self) {
        self.len += 1;
    }

    // ---- must-pass-through: every return after the write passes wake() ----
    pub fn feed_good(&mut self, d: &[u8]) -> bool {
        self.buf.extend_from_slice(d);
        if d.len() > 8 {
            self.wake();
            return true;
        }
        self.wake();
        false
    }
    pub fn feed_bad(&mut self, d: &[u8]) -> bool {
        self.buf.extend_from_slice(d);
        if d.len() > 8 {
            return true;
        }
        self.wake();
        false
    }

    // ---- guarded site: the append happens only under len + n <= limit ----
    pub fn acc_good(&mut self, d: &[u8]) -> Result<(), ()> {
        if self.len + d.len() > self.limit {
            return Err(());
        }
        self.scratch.extend_from_slice(d);
        Ok(())
    }
    pub fn acc_bad(&mut self, d: &[u8]) -> Result<(), ()> {
        if self.len + d.len() > self.limit && !self.eof {
            return Err(());
        }
        self.scratch.extend_from_slice(d);
        Ok(())
    }
    // short-circuit `||`: the false side is dominated by both false edges
    pub fn acc_or_good(&mut self, d: &[u8]) -> Result<(), ()> {
        if self.eof || self.len + d.len() > self.limit {
            return Err(());
        }
        self.scratch.extend_from_slice(d);
        Ok(())
    }

    // ---- correlated tests: Pending only when !eof (size != 0 known) ----
    pub fn read_len_good(&mut self, size: &mut usize) -> Poll<Result<usize, ()>> {
        if *size == 0 {
            return Poll::Ready(Ok(0));
        }
        if self.buf.is_empty() {
            if self.eof && *size != 0 {
                Poll::Ready(Err(()))
            } else {
                Poll::Pending
            }
        } else {
            Poll::Ready(Ok(1))
        }
    }
    pub fn read_len_bad(&mut self, size: &mut usize) -> Poll<Result<usize, ()>> {
        if *size == 0 {
            return Poll::Ready(Ok(0));
        }
        if self.buf.is_empty() {
            if self.eof && *size > 1 {
                Poll::Ready(Err(()))
            } else {
                Poll::Pending
            }
        } else {
            Poll::Ready(Ok(1))
        }
    }

    // ---- assumption-conditioned reachability with matches! threading ----
    pub fn poll_good(&mut self) {
        let closing = matches!(self.state, St::Closing | St::Closed);
        if !closing {
            self.dispatch();
        }
    }
    pub fn poll_bad(&mut self) {
        let closing = matches!(self.state, St::Closed);
        if !closing {
            self.dispatch();
        }
    }

    // ---- &mut-borrowed scalars are opaque ----
    pub fn opaque(&mut self) {
        let mut n = 0usize;
        fill(&mut n);
        if n > 0 {
            self.dispatch();
        }
    }

    pub fn foldable(&mut self) {
        let n = 0usize;
        if n > 0 {
            self.dispatch();
        }
    }

    // ---- equivalent spellings of one test ----
    pub fn syn_len_good(&mut self, d: &[u8]) {
        if d.len() == 0 {
            return;
        }
        self.scratch.extend_from_slice(d);
    }
    pub fn syn_len_bad(&mut self, d: &[u8]) {
        if d.len() == 1 {
            return;
        }
        self.scratch.extend_from_slice(d);
    }
    pub fn syn_opt_good(&mut self, o: Option<u8>) {
        if let None = o {
            return;
        }
        self.dispatch();
    }
    pub fn syn_opt_bad(&mut self, o: Option<u8>, p: Option<u8>) {
        if let None = p {
            return;
        }
        let _ = o;
        self.dispatch();
    }

    // ---- captured variables resolve to the enclosing frame's locals ----
    pub fn capture(&mut self, d: &[u8]) {
        let mut over = false;
        let bound = self.limit;
        let mut note = |n: usize| {
            if n > bound {
                over = true;
            }
        };
        note(d.len());
        if !over {
            self.scratch.extend_from_slice(d);
        }
    }

    // ---- reset completeness: every field of the recycled struct is written ----
    pub fn reset_good(&mut self) {
        self.buf.clear();
        self.scratch.clear();
        self.name.clear();
        self.len = 0;
        self.limit = 0;
        self.eof = false;
        self.woken = false;
        self.state = St::Open;
    }
    pub fn reset_bad(&mut self) {
        self.buf.clear();
        self.scratch.clear();
        self.len = 0;
        self.limit = 0;
        self.eof = false;
        self.woken = false;
        self.state = St::Open;
    }

    // ---- fixed-offset slice needs a dominating length test ----
    pub fn code_good(&self, p: &[u8]) -> Option<u16> {
        if p.len() >= 2 {
            Some(u16::from_be_bytes([p[0], p[1]]))
        } else {
            None
        }
    }
    pub fn code_bad(&self, p: &[u8]) -> Option<u16> {
        if !p.is_empty() {
            let (c, _) = p.split_at(2);
            Some(u16::from_be_bytes([c[0], c[1]]))
        } else {
            None
        }
    }

    // ---- overflow assert on a wire integer ----
    pub fn range_good(&self, off: u64, len: u64) -> Option<u64> {
        if len > 0 {
            Some(off + len - 1)
        } else {
            None
        }
    }
    pub fn range_bad(&self, off: u64, len: u64) -> Option<u64> {
        Some(off + len - 1)
    }
}

// ---- byte value-set table ----
pub fn step_good(b: u8) -> Step {
    match b {
        b'0'..=b'9' | b'a'..=b'f' | b'A'..=b'F' => Step::Digit,
        b'\r' => Step::Cr,
        b';' => Step::Ext,
        _ => Step::Bad,
    }
}
pub fn step_bad(b: u8) -> Step {
    match b {
        b'0'..=b'9' | b'a'..=b'f' | b'A'..=b'F' => Step::Digit,
        b'\r' | b'\n' => Step::Cr,
        b';' => Step::Ext,
        _ => Step::Bad,
    }
}

// ---- field effect set: only the impl above writes `Chan.eof` ----
pub fn outsider_good(c: &Chan) -> bool {
    c.eof
}
pub fn outsider_bad(c: &mut Chan) {
    c.eof = false;
}
