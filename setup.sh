#!/bin/sh
# Build the fact extractor (rustc_private driver, nightly, no dependencies) and
# byte-compile the rule engine. Builds nothing of /repo. Offline.
set -e
cd "$(dirname "$0")"
export CARGO_NET_OFFLINE=true
(cd factgen && cargo +nightly build --release --offline 2>&1 | tail -3)
test -x factgen/target/release/factgen
python3 -m compileall -q avlint >/dev/null
mkdir -p .cache evidence
echo "setup ok"
