#!/usr/bin/env python3
"""Run all 19 checks against every benign/*.diff (behaviour-preserving edits) on the scratch copy used by
tools/mut.py and report any obligation that newly fails: each such report would be a false alarm.
Writes benign/RESULTS.json. Never touches /repo."""
import json, os, shutil, subprocess, sys, time
V = os.path.dirname(os.path.dirname(os.path.abspath(__file__)))
sys.path.insert(0, V); sys.path.insert(0, os.path.join(V, "tools"))
import mut
from seedmatrix import failing
from avlint.core import Prog

def main():
    only = sys.argv[1:]
    mut.ensure_base()
    base = failing(Prog(mut.BASE))
    res = {}
    rp = os.path.join(V, "benign", "RESULTS.json")
    if os.path.exists(rp):
        res = json.load(open(rp))
    for f in sorted(os.listdir(os.path.join(V, "benign"))):
        if not f.endswith(".diff") or (only and not any(o in f for o in only)):
            continue
        mut.sync()
        r = subprocess.run(["patch", "-p1", "-s", "-i", os.path.join(V, "benign", f)], cwd=mut.SCR, stdout=subprocess.PIPE, stderr=subprocess.STDOUT, text=True)
        if r.returncode != 0:
            res[f] = {"error": "patch does not apply"}; print(f, "PATCH FAILED", r.stdout[-200:]); mut.sync(); continue
        out = os.path.join(mut.AVM, "out")
        if not mut.extract(out):
            res[f] = {"error": "does not compile"}; print(f, "DOES NOT COMPILE"); mut.sync(); continue
        newc = {mut.crate_of(x) for x in os.listdir(out)}
        facts = os.path.join(mut.AVM, "facts"); shutil.rmtree(facts, ignore_errors=True); os.makedirs(facts)
        for x in os.listdir(mut.BASE):
            if mut.crate_of(x) not in newc:
                shutil.copyfile(os.path.join(mut.BASE, x), os.path.join(facts, x))
        for x in os.listdir(out):
            shutil.copyfile(os.path.join(out, x), os.path.join(facts, x))
        f2 = failing(Prog(facts))
        fired = {p: sorted(f2[p] - base[p]) for p in f2 if f2[p] - base[p]}
        res[f] = {"false_alarms": fired}
        print(f, "SILENT" if not fired else "FALSE ALARM %s" % fired, flush=True)
        json.dump(res, open(rp, "w"), indent=1, sort_keys=True)
    mut.sync()

if __name__ == "__main__":
    main()
