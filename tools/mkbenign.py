#!/usr/bin/env python3
"""Generate benign/*.diff: behaviour-PRESERVING edits of /repo (renames, reordered independent statements, added
tracing, restructured conditionals, changed tuning constants). The checks must stay silent on every one of them
(tools/benign.py runs all 19 checks against each on a scratch copy)."""
import difflib, os, re, sys
V = os.path.dirname(os.path.dirname(os.path.abspath(__file__)))
R = "/repo"

def word(src, a, b, within=None):
    # a local / parameter, never a field or method (`x.len`, `range.length`) and never part of a path (`a::len`)
    return re.sub(r'(?<![\w:"])(?<!(?<!\.)\.)%s\b(?!\s*::)' % re.escape(a), b, src)

EDITS = {}

def edit(name, rel, fn):
    EDITS.setdefault(name, []).append((rel, fn))

def region(src, start_pat, end_pat, f):
    """apply f to the text between the first match of start_pat and the next match of end_pat"""
    m = re.search(start_pat, src)
    assert m, start_pat
    e = re.search(end_pat, src[m.end():])
    assert e, end_pat
    i, j = m.start(), m.end() + e.end()
    return src[:i] + f(src[i:j]) + src[j:]

# B01 poll_flush: rename the counters, add a trace line
def b01(s):
    def f(t):
        t = word(word(t, "written", "sent"), "len", "total")
        return t.replace("while sent < total {", "while sent < total {\n            trace!(\"flush: {} of {} bytes handed to the socket\", sent, total);")
    return region(s, r"fn poll_flush\(self: Pin<&mut Self>", r"\n    fn enter_linger", f)
edit("B01-poll_flush-rename-trace", "actix-http/src/h1/dispatcher.rs", b01)

# B02 set_headers: rename the decision variables
def b02(s):
    def f(t):
        for a, b in (("chunked", "is_chunked"), ("seen_te", "te_seen"), ("content_length", "declared_len"), ("has_upgrade_websocket", "ws_upgrade")):
            t = word(t, a, b)
        return t
    return region(s, r"fn set_headers\(", r"\n    fn decode\(src: &mut BytesMut\)", f)
edit("B02-set_headers-rename", "actix-http/src/h1/decoder.rs", b02)

# B03 payload::Inner::feed_data: wake before recomputing need_read (independent statements), rename parameter
def b03(s):
    old = """    fn feed_data(&mut self, data: Bytes) {
        self.len += data.len();
        self.items.push_back(data);
        self.need_read = self.len < MAX_BUFFER_SIZE;
        self.wake();
    }"""
    new = """    fn feed_data(&mut self, chunk: Bytes) {
        let added = chunk.len();
        self.items.push_back(chunk);
        self.len += added;
        self.need_read = self.len < MAX_BUFFER_SIZE;
        self.wake();
    }"""
    assert old in s
    return s.replace(old, new)
edit("B03-feed_data-restructure", "actix-http/src/h1/payload.rs", b03)

# B04 ResourceDef::parse: rename locals
def b04(s):
    def f(t):
        for a, b in (("re", "expr"), ("has_tail_segment", "tail_seen"), ("unprocessed", "rest"), ("dyn_segment_count", "n_dyn")):
            t = word(t, a, b)
        return t
    return region(s, r"    fn parse\(\n        pattern: &str,", r"\n\nimpl Eq for ResourceDef", f)
edit("B04-router-parse-rename", "actix-router/src/resource.rs", b04)

# B05 multipart poll_stream: rename, and hoist the repeated early-exit into a closure-free local bool
def b05(s):
    def f(t):
        return word(t, "appended", "grew")
    return region(s, r"pub\(crate\) fn poll_stream\(", r"\n    /// Reads exact number of bytes|\n    #\[cfg\(test\)\]|\n    pub\(crate\) fn read_exact", f)
edit("B05-multipart-poll_stream-rename", "actix-multipart/src/payload.rs", b05)

# B06 NamedFile::into_response: rename range variables
def b06(s):
    def f(t):
        for a, b in (("offset", "start_at"), ("length", "n_bytes"), ("ranged_req", "is_partial")):
            t = word(t, a, b)
        return t
    return region(s, r"pub fn into_response\(self, req: &HttpRequest\)", r"\n    \}\n\}\n", f)
edit("B06-named-file-rename", "actix-files/src/named.rs", b06)

# B07 h2 prepare_response: rename skip_len, has_date
def b07(s):
    def f(t):
        return word(word(t, "skip_len", "omit_len"), "has_date", "date_seen")
    return region(s, r"fn prepare_response\(", r"\n\}\n", f)
edit("B07-h2-prepare_response-rename", "actix-http/src/h2/dispatcher.rs", b07)

# B08 ws Parser::parse / parse_metadata: rename parameters
def b08(s):
    def f(t):
        return word(word(t, "max_size", "limit"), "server", "is_server")
    return region(s, r"impl Parser \{", r"\n    /// Generate binary representation", f)
edit("B08-ws-parser-rename", "actix-http/src/ws/frame.rs", b08)

# B09 HttpMessageBody::poll: early return instead of else
def b09(s):
    old = """                    if this.buf.len() + chunk.len() > this.limit {
                        return Poll::Ready(Err(PayloadError::Overflow));
                    } else {
                        this.buf.extend_from_slice(&chunk);
                    }"""
    new = """                    if this.buf.len() + chunk.len() > this.limit {
                        return Poll::Ready(Err(PayloadError::Overflow));
                    }
                    this.buf.extend_from_slice(&chunk);"""
    assert old in s
    return s.replace(old, new)
edit("B09-payload-early-return", "actix-web/src/types/payload.rs", b09)

# B10 MessageEncoder::encode: swap the branches of the HEAD/bodiless test
def b10(s):
    old_start = s.index("        if !head && !bodiless {\n            self.te = match length {")
    old_end = s.index("            self.te = TransferEncoding::empty();\n        }\n", old_start) + len("            self.te = TransferEncoding::empty();\n        }\n")
    new = """        if head || bodiless {
            self.te = TransferEncoding::empty();
        } else {
            self.te = match length {
                BodySize::Sized(0) => TransferEncoding::empty(),
                BodySize::Sized(len) => TransferEncoding::length(len),
                BodySize::Stream => {
                    if message.chunked() && !stream {
                        TransferEncoding::chunked()
                    } else {
                        TransferEncoding::eof()
                    }
                }
                BodySize::None => TransferEncoding::empty(),
            };
        }
"""
    return s[:old_start] + new + s[old_end:]
edit("B10-encoder-swap-branches", "actix-http/src/h1/encoder.rs", b10)

# B11 tuning constants: file chunk size, h2 CHUNK_SIZE, payload high-water mark
def b11a(s):
    assert "65_536" in s or "65536" in s
    return s.replace("65_536", "32_768")
edit("B11-tuning-constants", "actix-files/src/chunked.rs", b11a)
def b11b(s):
    assert "const CHUNK_SIZE: usize = 16_384;" in s
    return s.replace("const CHUNK_SIZE: usize = 16_384;", "const CHUNK_SIZE: usize = 8_192;")
edit("B11-tuning-constants", "actix-http/src/h2/dispatcher.rs", b11b)

# B12 Codec::decode: reorder the independent per-request assignments, rename locals
def b12(s):
    old = """            self.flags.set(Flags::HEAD, head.method == Method::HEAD);
            self.version = head.version;
            self.conn_type = head.connection_type();"""
    new = """            self.version = head.version;
            self.conn_type = head.connection_type();
            self.flags.set(Flags::HEAD, head.method == Method::HEAD);"""
    assert old in s
    return s.replace(old, new)
edit("B12-codec-decode-reorder", "actix-http/src/h1/codec.rs", b12)

# B13 multipart read_stream: rename the candidate variables
def b13(s):
    def f(t):
        for a, b in (("b_len", "cand_len"), ("b_size", "cand_end"), ("cur", "cursor")):
            t = word(t, a, b)
        return t
    return region(s, r"fn read_stream\(", r"\n    pub\(crate\) fn poll\(", f)
edit("B13-multipart-read_stream-rename", "actix-multipart/src/field.rs", b13)

# B14 AppInitService::call: rename req / inner
def b14(s):
    def f(t):
        return word(t, "req", "incoming")
    return region(s, r"fn call\(&self, mut req: Request\) -> Self::Future", r"\n    \}\n\}\n", f)
edit("B14-app-service-rename", "actix-web/src/app_service.rs", b14)

# B15 payload::Inner: the wake-up goes through a small helper (depth-1 wrapper)
def b15(s):
    old = """        self.need_read = self.len < MAX_BUFFER_SIZE;
        self.wake();
    }"""
    new = """        self.need_read = self.len < MAX_BUFFER_SIZE;
        self.notify_reader();
    }

    fn notify_reader(&mut self) {
        self.wake();
    }"""
    assert s.count(old) == 1
    return s.replace(old, new)
edit("B15-payload-wake-helper", "actix-http/src/h1/payload.rs", b15)

# B16 HeaderMap::remove: `match` instead of `if let`/`?`-free restructuring is covered elsewhere; here: ws codec decode
# uses a local for the opcode test order (two independent early checks swapped)
def b16(s):
    old = """        if self.flags.contains(Flags::HEAD) {"""
    return s  # placeholder: no edit (kept for numbering stability)

# ---- generic: rename every simply-bound local (`let [mut] x`, `|x|`-free) of a function region to x_r -----------
def rename_all(start_pat, end_pat):
    def g(s):
        def f(t):
            names = set(re.findall(r"\blet\s+(?:mut\s+)?([a-z][a-z0-9_]*)\s*(?::|=|;)", t))
            names -= {"this", "self", "_"}
            # names used in struct-literal shorthand or as field-init shorthand would break: skip those
            for n in sorted(names):
                if re.search(r"[{,]\s*%s\s*[,}]" % re.escape(n), t) or re.search(r"\{\s*%s\s*\}" % re.escape(n), t) or re.search(r'\{%s[:}]' % re.escape(n), t):
                    names.discard(n)
            for n in sorted(names, key=len, reverse=True):
                t = word(t, n, n + "_r")
            return t
        return region(s, start_pat, end_pat, f)
    return g

edit("B17-h2-handle_response-rename-all", "actix-http/src/h2/dispatcher.rs", rename_all(r"async fn handle_response<", r"\n\}\n"))
edit("B18-ws-codec-rename-all", "actix-http/src/ws/codec.rs", rename_all(r"impl Decoder for Codec \{", r"\n\}\n"))
edit("B19-awc-pool-rename-all", "awc/src/client/pool.rs", rename_all(r"fn call\(&self, req: Connect\) -> Self::Future", r"\n    \}\n\}\n"))
edit("B21-quoter-rename-all", "actix-router/src/quoter.rs", rename_all(r"    fn decode_next<", r"\n\}\n"))
edit("B22-h1-poll_request-rename-all", "actix-http/src/h1/dispatcher.rs", rename_all(r"    fn poll_request\(", r"\n    fn poll_head_timer|\n    fn poll_ka_timer|\n    fn poll_timers"))
edit("B23-h1-poll_response-rename-all", "actix-http/src/h1/dispatcher.rs", rename_all(r"    fn poll_response\(", r"\n    fn handle_request\("))
edit("B24-multipart-inner-poll-rename-all", "actix-multipart/src/multipart.rs", rename_all(r"    fn poll\(", r"\n\}\n"))
edit("B25-files-path-rename-all", "actix-files/src/path_buf.rs", rename_all(r"    pub fn parse_path\(", r"\n    \}\n"))
edit("B26-encoder-rename-all", "actix-http/src/encoding/encoder.rs", rename_all(r"impl<B> MessageBody for Encoder<B>", r"\n\}\n"))

# ---- equivalent spellings of tests -------------------------------------------------------------
def repl(old, new, count=None):
    def g(s):
        n = s.count(old)
        assert n >= 1 and (count is None or n == count), (old, n)
        return s.replace(old, new)
    return g

edit("B27-h2-len-eq-zero", "actix-http/src/h2/dispatcher.rs", repl("chunk.is_empty()", "chunk.len() == 0"))
edit("B28-encoder-len-eq-zero", "actix-http/src/h1/encoder.rs", repl("msg.is_empty()", "msg.len() == 0"))
edit("B29-dispatcher-matches-none", "actix-http/src/h1/dispatcher.rs", repl("&& inner_p.payload.is_none()", "&& matches!(inner_p.payload, None)", 1))
edit("B30-dispatcher-len-eq-zero", "actix-http/src/h1/dispatcher.rs", repl("if state_is_none && inner_p.write_buf.is_empty() {", "if state_is_none && inner_p.write_buf.len() == 0 {", 1))

# ---- edits around the rules added late -------------------------------------------------------------------
edit("B32-timer-init-if-let", "actix-http/src/h1/timer.rs", repl("if timer.as_mut().poll(cx).is_ready() {", "if let std::task::Poll::Ready(()) = timer.as_mut().poll(cx) {", 1))
def b33(s):
    old = """                                    ping_pong.in_flight = false;

                                    let dead_line = this.config.keep_alive_deadline().unwrap();
                                    ping_pong.timer.as_mut().reset(dead_line.into());"""
    new = """                                    let dead_line = this.config.keep_alive_deadline().unwrap();
                                    ping_pong.timer.as_mut().reset(dead_line.into());
                                    ping_pong.in_flight = false;"""
    assert s.count(old) == 1
    return s.replace(old, new)
edit("B33-h2-pong-reorder", "actix-http/src/h2/dispatcher.rs", b33)
def b34(s):
    old = """    head.headers_mut()
        .insert(header::CONTENT_ENCODING, encoding.to_header_value());
    head.headers_mut()
        .append(header::VARY, HeaderValue::from_static("accept-encoding"));

    // a length set for the uncoded body does not describe the coded one
    head.headers_mut().remove(header::CONTENT_LENGTH);
"""
    new = """    // a length set for the uncoded body does not describe the coded one
    head.headers_mut().remove(header::CONTENT_LENGTH);

    head.headers_mut()
        .insert(header::CONTENT_ENCODING, encoding.to_header_value());
    head.headers_mut()
        .append(header::VARY, HeaderValue::from_static("accept-encoding"));
"""
    assert s.count(old) == 1
    return s.replace(old, new)
edit("B34-update_head-reorder", "actix-http/src/encoding/encoder.rs", b34)
edit("B35-removed-size-hint-len", "actix-http/src/header/map.rs", repl("            None => (0, Some(0)),", "            None => {\n                let n = 0;\n                (n, Some(n))\n            }", 1))
edit("B36-sized-stream-size-let", "actix-http/src/body/sized_stream.rs", repl("        BodySize::Sized(self.size)", "        let declared = self.size;\n        BodySize::Sized(declared)", 1))

def main():
    out = os.path.join(V, "benign")
    os.makedirs(out, exist_ok=True)
    for f in os.listdir(out):
        if f.endswith(".diff"):
            os.remove(os.path.join(out, f))
    for name, edits in EDITS.items():
        d = ""
        for rel, fn in edits:
            src = open(os.path.join(R, rel)).read()
            try:
                dst = fn(src)
            except AssertionError as e:
                print("SKIP", name, rel, "anchor not found:", e)
                d = None
                break
            if dst == src:
                print("NOOP", name, rel)
            d += "".join(difflib.unified_diff(src.splitlines(True), dst.splitlines(True), "a/" + rel, "b/" + rel))
        if d:
            open(os.path.join(out, name + ".diff"), "w").write(d)
            print("wrote", name, d.count("\n@@"))

if __name__ == "__main__":
    main()
