#!/usr/bin/env python3
"""Development aid: evaluate the variant-sensitive properties (check.VARIANTS) on their cfg variants only, without the
self-test — to be run after every change to the rules of C09–C12 (a rule written against the workspace feature set can
meet different callees under `web-lean`: regex-lite, no Decompress)."""
import importlib, importlib.machinery, importlib.util, sys
sys.argv = ["check"]
loader = importlib.machinery.SourceFileLoader("chk", "/verif/check")
spec = importlib.util.spec_from_loader("chk", loader)
m = importlib.util.module_from_spec(spec)
loader.exec_module(m)
from avlint.core import Prog, AnchorLost  # noqa: E402
from avlint import report  # noqa: E402

rc = 0
for pid, vs in sorted(m.VARIANTS.items()):
    for v in vs:
        pv = Prog(m.facts("ws"), override=m.facts(v))
        mod = importlib.import_module("avlint.props.%s" % pid.lower())
        ck = report.Check(pid, pv, "thorough")
        try:
            mod.run(ck, pv, "thorough", None)
        except AnchorLost as e:
            ck.ob("anchor", "anchor-lost", False, detail=str(e))
        bad = [(o["key"], o["detail"][:120]) for o in ck.obs if not o["ok"]]
        print(pid, v, len(ck.obs), "obligations; failing:", bad)
        rc = rc or (1 if bad else 0)
sys.exit(rc)
