#!/usr/bin/env python3
"""tools/import_seeds.py <dir-with-Cxx/seedN> ... : copy new seeded changes into seeded/<Cxx>-<n>, skipping a change whose
+/- lines equal those of an already stored seed of that property; prints the new ids"""
import os, re, shutil, sys
V = os.path.dirname(os.path.dirname(os.path.abspath(__file__)))
def sig(p):
    return tuple(l.rstrip() for l in open(p) if re.match(r"^[+-][^+-]", l) and l[1:].strip() and not l[1:].strip().startswith("//"))
new = []
for root in sys.argv[1:]:
    pid = os.path.basename(root.rstrip("/"))
    have = {d: sig(os.path.join(V, "seeded", d, "patch.diff")) for d in os.listdir(os.path.join(V, "seeded")) if d.startswith(pid + "-")}
    for sd in sorted(os.listdir(root)):
        src = os.path.join(root, sd)
        if not (sd.startswith("seed") and os.path.exists(os.path.join(src, "patch.diff"))):
            continue
        s = sig(os.path.join(src, "patch.diff"))
        dup = [d for d, x in have.items() if x == s]
        if dup:
            print("duplicate of", dup[0], ":", src)
            continue
        n = 1
        while "%s-%d" % (pid, n) in have or os.path.exists(os.path.join(V, "seeded", "%s-%d" % (pid, n))):
            n += 1
        dst = os.path.join(V, "seeded", "%s-%d" % (pid, n))
        os.makedirs(dst)
        for f in ("patch.diff", "demo.diff", "notes.md"):
            shutil.copyfile(os.path.join(src, f), os.path.join(dst, f))
        have["%s-%d" % (pid, n)] = s
        new.append("%s-%d" % (pid, n))
print("NEW:", " ".join(new))
