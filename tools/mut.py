#!/usr/bin/env python3
"""Development / self-test aid: run checks against a *patched scratch copy* of
/repo without touching /repo.

  tools/mut.py <patch.diff> <Cxx> [<Cyy> ...]   apply patch to scratch copy, re-extract
                                                 the crates that changed, run the checks
  tools/mut.py --base                            (re)build the scratch base facts

Scratch state lives under $AVM_DIR (default /tmp/avm) and is rebuilt on demand;
nothing registered in MANIFEST.json depends on it.
"""
import filecmp
import os
import shutil
import subprocess
import sys
import time

VERIF = os.path.dirname(os.path.dirname(os.path.abspath(__file__)))
REPO = "/repo"
AVM = os.environ.get("AVM_DIR", "/tmp/avm")
SCR = os.path.join(AVM, "repo")
TGT = os.path.join(AVM, "target")
BASE = os.path.join(AVM, "base")
FACTGEN = os.path.join(VERIF, "factgen", "target", "release", "factgen")


def sync():
    """make SCR content-equal to /repo's working tree; changed files get a
    fresh mtime so cargo rebuilds them"""
    os.makedirs(SCR, exist_ok=True)
    want = set()
    for root, dirs, fs in os.walk(REPO):
        dirs[:] = [d for d in dirs if d not in ("target", ".git")]
        rel = os.path.relpath(root, REPO)
        os.makedirs(os.path.join(SCR, rel), exist_ok=True)
        for f in fs:
            src = os.path.join(root, f)
            dst = os.path.join(SCR, rel, f)
            want.add(os.path.normpath(dst))
            if os.path.islink(src):
                continue
            if not os.path.exists(dst) or not filecmp.cmp(src, dst, shallow=False):
                shutil.copyfile(src, dst)
    for root, dirs, fs in os.walk(SCR):
        dirs[:] = [d for d in dirs if d not in ("target", ".git")]
        for f in fs:
            p = os.path.normpath(os.path.join(root, f))
            if p not in want:
                os.remove(p)


def extract(out):
    shutil.rmtree(out, ignore_errors=True)
    os.makedirs(out)
    sysroot = subprocess.check_output(["rustc", "+nightly", "--print", "sysroot"], text=True).strip()
    env = dict(os.environ)
    env.update(
        LD_LIBRARY_PATH=os.path.join(sysroot, "lib"),
        RUSTFLAGS="-Zmir-opt-level=0 -Awarnings",
        RUSTC_WORKSPACE_WRAPPER=FACTGEN,
        FACTGEN_OUT=out,
        CARGO_TARGET_DIR=TGT,
        CARGO_NET_OFFLINE="true",
    )
    p = subprocess.run(
        ["cargo", "+nightly", "check", "--offline", "--workspace", "--lib"],
        cwd=SCR, env=env, stdout=subprocess.PIPE, stderr=subprocess.STDOUT, text=True,
    )
    if p.returncode != 0:
        print("\n".join(p.stdout.splitlines()[-30:]))
        return False
    return True


def crate_of(fname):
    return fname.rsplit("-", 1)[0]


def base():
    sync()
    # force a full rebuild of workspace members: remove their fingerprints
    fp = os.path.join(TGT, "debug", ".fingerprint")
    if os.path.isdir(fp):
        for d in os.listdir(fp):
            if d.startswith(("actix-", "awc-")):
                shutil.rmtree(os.path.join(fp, d), ignore_errors=True)
    tmp = os.path.join(AVM, "out-base")
    if not extract(tmp):
        sys.exit(2)
    shutil.rmtree(BASE, ignore_errors=True)
    os.rename(tmp, BASE)
    print("base facts:", sorted(os.listdir(BASE)))


def repo_hash():
    import hashlib
    h = hashlib.sha256()
    for root, dirs, fs in os.walk(REPO):
        dirs[:] = sorted(d for d in dirs if d not in ("target", ".git"))
        for f in sorted(fs):
            if f.endswith((".rs", ".toml", ".lock")):
                p = os.path.join(root, f)
                h.update(p.encode())
                h.update(open(p, "rb").read())
    return h.hexdigest()


def ensure_base():
    """base facts must describe /repo's current tree; refresh incrementally"""
    hp = os.path.join(AVM, "base.hash")
    cur = repo_hash()
    if os.path.isdir(BASE) and os.path.exists(hp) and open(hp).read() == cur:
        return
    if not os.path.isdir(BASE):
        base()
    else:
        sync()
        out = os.path.join(AVM, "out-refresh")
        if not extract(out):
            sys.exit(2)
        newc = {crate_of(f) for f in os.listdir(out)}
        for f in os.listdir(BASE):
            if crate_of(f) in newc:
                os.remove(os.path.join(BASE, f))
        for f in os.listdir(out):
            shutil.move(os.path.join(out, f), os.path.join(BASE, f))
        print("[mut] base refreshed for", sorted(newc))
    open(hp, "w").write(cur)


def run(patch, props, keep=False):
    ensure_base()
    sync()
    r = subprocess.run(["patch", "-p1", "-s", "-i", os.path.abspath(patch)], cwd=SCR, stdout=subprocess.PIPE, stderr=subprocess.STDOUT, text=True)
    if r.returncode != 0:
        print("patch failed:\n" + r.stdout)
        return 2
    t0 = time.time()
    out = os.path.join(AVM, "out")
    ok = extract(out)
    if not ok:
        print("MUTANT DOES NOT COMPILE")
        sync()
        return 3
    newc = {crate_of(f) for f in os.listdir(out)}
    facts = os.path.join(AVM, "facts")
    shutil.rmtree(facts, ignore_errors=True)
    os.makedirs(facts)
    for f in os.listdir(BASE):
        if crate_of(f) not in newc:
            shutil.copyfile(os.path.join(BASE, f), os.path.join(facts, f))
    for f in os.listdir(out):
        shutil.copyfile(os.path.join(out, f), os.path.join(facts, f))
    print("[mut] re-extracted %s in %.0fs" % (sorted(newc), time.time() - t0))
    rc = 0
    env = dict(os.environ, AVLINT_FACTS=facts, AVLINT_EVIDENCE_DIR=os.path.join(AVM, "evidence"))
    for p in props:
        r = subprocess.run([os.path.join(VERIF, "check"), p], env=env, stdout=subprocess.PIPE, stderr=subprocess.STDOUT, text=True)
        print(r.stdout.rstrip())
        code = r.returncode
        if code == 1 and "VIOLATION property=" not in r.stdout:
            code = 4
        print("[mut] %s exit=%d" % (p, code))
        rc = rc or code
    # restore scratch (changed files get new mtimes -> rebuilt next time)
    sync()
    return rc


def run_all(pid, only=None):
    d = os.path.join(VERIF, "mutants", pid)
    res = {}
    for f in sorted(os.listdir(d)):
        if not f.endswith(".diff") or (only and only not in f):
            continue
        print("=== mutant %s/%s" % (pid, f))
        rc = run(os.path.join(d, f), [pid])
        res[f] = rc
    print("\n== summary %s: %d/%d detected" % (pid, sum(1 for v in res.values() if v == 1), len(res)))
    for f, rc in res.items():
        print("   %-40s %s" % (f, {1: "DETECTED", 0: "MISSED", 3: "does-not-compile", 2: "patch-failed/checker-error", 4: "checker-crashed"}.get(rc, rc)))
    return 0 if all(v == 1 for v in res.values()) else 1


if __name__ == "__main__":
    a = sys.argv[1:]
    if a and a[0] == "--all":
        sys.exit(run_all(a[1], a[2] if len(a) > 2 else None))
    if a and a[0] == "--base":
        base()
        sys.exit(0)
    sys.exit(run(a[0], a[1:]))
