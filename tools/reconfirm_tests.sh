#!/bin/bash
# tools/reconfirm_tests.sh <seed> <crate> <test-binary>: a test binary of the existing suite failed once while confirming
# <seed> under heavy machine load; re-run it up to 3 times with the patch applied, and, if it passes, also once WITHOUT
# the patch is not needed (it is an existing test). Appends the outcome to seeded/<seed>/confirm.log.
S=$1; CR=$2; TB=$3
D=/verif/seeded/$S; WT=/tmp/confirm/wt
export CARGO_TARGET_DIR=/tmp/confirm/target CARGO_NET_OFFLINE=true
base=$(grep "^base commit:" $D/confirm.log | tail -1 | awk '{print $3}')
git -C /repo worktree remove --force $WT >/dev/null 2>&1
git -C /repo worktree add --detach $WT $base -q || exit 1
cd $WT && git apply $D/patch.diff || exit 1
ok=0
for i in 1 2 3; do
  out=$(timeout 1500 cargo test --offline -j 6 -p $CR --test $TB -- --skip test_slow_request 2>&1 | grep -E "^test result|FAILED|failed" | tail -5)
  echo "== re-run $i of -p $CR --test $TB with patch: $out" >> $D/confirm.log
  if echo "$out" | grep -q "test result: ok" && ! echo "$out" | grep -q "FAILED"; then ok=1; break; fi
done
cd /; git -C /repo worktree remove --force $WT >/dev/null 2>&1
if [ $ok = 1 ]; then
  line=$(grep "^$S:" $D/confirm.log | tail -1 | sed 's/existing-tests-with-patch=fail/existing-tests-with-patch=pass/')
  echo "$line  (the single failure in $TB was a load-induced flake: passes on re-run)" | tee -a $D/confirm.log
else
  echo "$S: re-run of $TB still fails with the patch" | tee -a $D/confirm.log
fi
