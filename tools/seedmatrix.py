#!/usr/bin/env python3
"""Development aid: which checks catch which seeded change?

For every seeded/<id>/ (the version ported to the current tree under
mutants/<Cxx>/seed-<id>.diff when present, else patch.diff) apply it to the
scratch copy used by tools/mut.py, re-extract, evaluate ALL property modules
in-process and record the obligations that newly fail. Writes
seeded/MATRIX.json and seeded/RESULTS.md. Never touches /repo."""
import importlib
import json
import os
import shutil
import subprocess
import sys
import time

VERIF = os.path.dirname(os.path.dirname(os.path.abspath(__file__)))
sys.path.insert(0, VERIF)
sys.path.insert(0, os.path.join(VERIF, "tools"))
import mut  # noqa: E402
from avlint import report  # noqa: E402
from avlint.core import AnchorLost, Prog  # noqa: E402

PIDS = ["C%02d" % i for i in range(1, 20)]


def failing(prog):
    out = {}
    for pid in PIDS:
        mod = importlib.import_module("avlint.props.%s" % pid.lower())
        ck = report.Check(pid, prog, "quick")
        try:
            mod.run(ck, prog, "quick", None)
        except AnchorLost as e:
            ck.ob("anchor", "anchor-lost|" + str(e)[:80], False, detail=str(e), nontrivial=False)
        except Exception as e:  # a crash is not a detection
            out[pid] = {"!crash " + repr(e)[:80]}
            continue
        out[pid] = {o["key"] for o in ck.obs if not o["ok"]}
    return out


def main():
    only = sys.argv[1:]
    mut.ensure_base()
    base = failing(Prog(mut.BASE))
    mpath = os.path.join(VERIF, "seeded", "MATRIX.json")
    matrix = json.load(open(mpath)) if os.path.exists(mpath) else {}
    seeds = sorted(d for d in os.listdir(os.path.join(VERIF, "seeded")) if os.path.isdir(os.path.join(VERIF, "seeded", d)))
    for sd in seeds:
        if only and sd not in only:
            continue
        pid = sd.split("-")[0]
        ported = os.path.join(VERIF, "mutants", pid, "seed-%s.diff" % sd)
        patch = ported if os.path.exists(ported) else os.path.join(VERIF, "seeded", sd, "patch.diff")
        mut.sync()
        r = subprocess.run(["patch", "-p1", "-s", "-i", patch], cwd=mut.SCR, stdout=subprocess.PIPE, stderr=subprocess.STDOUT, text=True)
        if r.returncode != 0:
            matrix[sd] = {"error": "patch does not apply: " + r.stdout[-200:]}
            mut.sync()
            continue
        t0 = time.time()
        out = os.path.join(mut.AVM, "out")
        if not mut.extract(out):
            matrix[sd] = {"error": "does not compile"}
            mut.sync()
            continue
        newc = {mut.crate_of(f) for f in os.listdir(out)}
        facts = os.path.join(mut.AVM, "facts")
        shutil.rmtree(facts, ignore_errors=True)
        os.makedirs(facts)
        for f in os.listdir(mut.BASE):
            if mut.crate_of(f) not in newc:
                shutil.copyfile(os.path.join(mut.BASE, f), os.path.join(facts, f))
        for f in os.listdir(out):
            shutil.copyfile(os.path.join(out, f), os.path.join(facts, f))
        f2 = failing(Prog(facts))
        fired = {p: sorted(f2[p] - base[p]) for p in PIDS if f2[p] - base[p]}
        matrix[sd] = {"patch": os.path.relpath(patch, VERIF), "fired": fired, "wall_s": round(time.time() - t0, 1)}
        print(sd, {p: v[:2] for p, v in fired.items()} or "MISSED", flush=True)
        json.dump(matrix, open(mpath, "w"), indent=1, sort_keys=True)
    mut.sync()


if __name__ == "__main__":
    main()
