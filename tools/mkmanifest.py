#!/usr/bin/env python3
"""Regenerate /verif/MANIFEST.json from the table below (claimed = a module
avlint/props/cXX.py exists and is listed in CLAIMS)."""
import json
import os

VERIF = os.path.dirname(os.path.dirname(os.path.abspath(__file__)))

NOTE = (
    "Trusted base: rustc's MIR construction and trait resolution (nightly 1.97), the factgen serialiser, the avlint "
    "CFG/dominance/slicing code (exercised by controls on every run), the reference tables typed into the rules. "
    "Decides only the structural clauses named in the text; the behavioural property as a whole (values, timing, "
    "liveness) is not decided by this family. Unwind paths are ignored; calls through dyn/type parameters are opaque."
)

CLAIMS = {
    "C07": (
        "4/C07",
        "rule-based static analysis of built MIR: field-effect sets + must-pass-through + guarded-site",
        "Decides structural necessary conditions of the body channel on every path of h1::payload: queue operations "
        "(push_back/pop_front/push_front each in exactly one method, byte counter updated with the same chunk), every "
        "producer-side state change followed by Inner::wake, consumer pop/Pending followed by wake_io, Ready(None) only "
        "under queue-empty & no-error & eof, eof written only by feed_eof, sender drop -> Incomplete unless already closed, "
        "Pending only after register(cx), Pause only after register_io(cx). A path fact holds for every history and "
        "schedule, which the ten hand-written sequences in payload.rs tests cannot give. Not a proof of byte equality.",
    ),
    "C11": (
        "4/C11",
        "reset-coverage analysis over the type table and CFG (must-pass-through per struct field), caller sets",
        "For both recycling pools (HttpRequestInner in actix-web, RequestHead in actix-http) every field listed in the "
        "type table is shown to be overwritten from the incoming request or cleared on every control-flow path between "
        "pop and hand-off / before push; push is dominated by the unshared + available tests; pop/push have one caller "
        "each. A newly added field that is not reset is reported by name. Does not decide leaks through user-cloned Rc's.",
    ),
    "C15": (
        "4/C15",
        "guarded-site analysis with callee need-more summaries and correlated-branch pruning; must-pass-through",
        "Every Poll::Pending the multipart parser can return is justified on every path by !eof, by an eof-guarded "
        "need-more of a summarised scanner, by propagation, or by the safety gate — otherwise a hang after end of "
        "stream is reported (this found the read_stream defect, now fixed). Appends to the parser buffer are dominated "
        "by the limit comparison and clamped; poll_next hands the context to poll_stream before parsing; poll_stream "
        "self-wakes on early exit; Inner.state transitions are the allowed ones. Exact field bytes are not decided.",
    ),
}

CLAIMS["C04"] = (
    "4/C04",
    "CFG rules on the dispatcher: guarded-site, must-pass-through, flag-conditioned reachability, provenance slices",
    "Decides, for every path of InnerDispatcher::poll_flush / read_available / poll_linger / Dispatcher::poll: flush "
    "accounting (Pending only after advance(written), socket flush only after clear() on the loop-exit edge, counter "
    "grows only by poll_write's result), waker hand-off (literal Pending dominated by a context-taking call; final "
    "Pending self-wakes whenever LINGER or SHUTDOWN is set; buffer-full exit waits for the consumer or self-wakes; "
    "finished linger self-wakes) and the shutdown chain (EOF -> READ_DISCONNECT with body failed before its end is "
    "signalled -> SHUTDOWN -> flush then poll_shutdown). Path facts hold for every readiness pattern, which the "
    "scripted-buffer tests cannot vary. Liveness proper and exactly-once delivery of byte values are not decided.",
)
CLAIMS["C14"] = (
    "4/C14",
    "guarded-site + never-reach + switch-table extraction checked against RFC 6455 reference tables + flag effect sets",
    "Decides structural clauses of the frame codec on every path: oversized frames are refused before buffering and no "
    "delivered frame exceeds max_size (found and fixed: need-more returned for an oversized incomplete frame), need-more "
    "returns consume nothing, opcode tables are mutually inverse and equal RFC 6455, writer length classes agree with "
    "reader markers and every wide read is dominated by its length test, masking mismatches and reserved opcodes are "
    "rejected, Ping/Pong > 125 and fragmented control frames are rejected, continuation flags are tested on every data "
    "arm and changed only on the right arms (found and fixed: complete data frame accepted inside a fragmented "
    "message), handshake rejections dominate acceptance and the accept key uses the RFC GUID. Payload round-trip "
    "equality and masking arithmetic are not decided.",
)

CLAIMS["C03"] = (
    "4/C03",
    "sibling agreement over guarded effect sets; guarded-site; must-pass-through; never-reach on the dispatcher CFGs",
    "Decides on every path: the duplicated senders / send-body arms perform identical guarded effects; KEEP_ALIVE can be "
    "set only under payload.is_none(); FINISHED->SHUTDOWN requires !KEEP_ALIVE and payload.is_none(); the unread-payload "
    "predicate has the required boolean structure and forces ConnectionType::Close together with DRAINING; every queued "
    "error response comes with READ_DISCONNECT and leaves the decode loop; READ_DISCONNECT blocks reading and decoding; "
    "LINGER never decodes and discards what it reads. The clause `no dispatch after a response that announced close` "
    "is violated today at two dispatch sites (confirmed with a pipelined input) and is carried as a known finding by "
    "exact key; any other violation of the same rule still fails. Timing races between timers are not decided.",
)
CLAIMS["C05"] = (
    "4/C05",
    "guarded-site analysis: every growth site of a per-connection buffer/queue is crossed by its limit comparison on every path, re-evaluated per loop iteration",
    "Finds all growth sites by query (socket reads into read_buf, need-more of the head parser, enqueues of pipelined "
    "messages, feeds of the body channel, chunk appends to write_buf) and shows each is reachable only across the "
    "comparison with its limit constant / configured size, that the comparison is re-evaluated on every loop iteration, "
    "and that the over-limit edge yields TooLarge -> 431 + READ_DISCONNECT. Bounds are 'limit + one read buffer / one "
    "chunk' as the property allows. Numeric high-water marks are not decided.",
)

CLAIMS["C02"] = (
    "4/C02",
    "field effect sets on h1::Codec + dominance + assumption-conditioned reachability (per status) + error-propagation discipline",
    "Decides on every path: which Codec fields are per-request state shared across decode-ahead and whether a restore "
    "dominates each response-head encode (violated today: known finding, confirmed with a pipelined GET+HEAD); an "
    "empty data chunk cannot reach an end-of-body-on-empty transfer encoder unguarded (found and fixed); status/HEAD "
    "framing tables of encode_headers and MessageEncoder::encode, per status under the assumption status == s (204/1xx "
    "found and fixed; 304 is pinned by an existing test and carried as a known finding); short sized bodies and body "
    "errors never end cleanly; exactly one head encoder site and its two callers; 100 Continue only after the expect "
    "future resolved Ok. Byte-for-byte body equality and write-buffer ordering are not decided.",
)

CLAIMS["C01"] = (
    "4/C01",
    "never-reach + guarded-site + assumption-conditioned reachability + byte value-set analysis against an RFC 7230 reference automaton",
    "Decides on every path: need-more returns of the head, payload and chunk decoders consume nothing (or persist the "
    "step state first), so a cut of the input resumes identically; each framing-conflict class of the statement has a "
    "rejecting exit in set_headers / Request::decode and the success return is unreachable under the conflicting "
    "assumptions; from a decode error the dispatcher cannot reach decode again, sets READ_DISCONNECT and answers 431/400; "
    "the chunk automaton extracted per state by value-set analysis over all 256 byte values equals the RFC 7230 4.1 "
    "automaton with recorded leniencies (found and fixed: size line without a digit accepted). Equality of the decoded "
    "request sequence with the grammar for every byte string (httparse, Uri) is not decided.",
)

CLAIMS["C06"] = (
    "4/C06",
    "must-pass-through / guarded-site on timer-expiry edges and flag effects; assumption-conditioned reachability for the drain clauses",
    "Decides ONLY the event->effect half: expiry edges of the head, keep-alive and shutdown timers lead to 408+SHUTDOWN, "
    "SHUTDOWN + bounded shutdown, LINGER->SHUTDOWN or DisconnectTimeout; timers are armed/cleared on the right edges and "
    "a running linger deadline is not re-armed; the graceful signal sets DRAINING and clears keep-alive; under DRAINING "
    "an idle connection drops its queue and decodes nothing while an in-flight request keeps being read; signal and "
    "timers are polled before the branch choice; arming polls the timer with the task context. Every clause about WHEN "
    "(not before the deadline, never outlasting the timeout) depends on runtime Instants and is not decided.",
)
CLAIMS["C08"] = (
    "4/C08",
    "guarded-site, must-pass-through and edge-set reachability on the pre-transform coroutine CFG of handle_response; header/status table extraction",
    "Decides on every path of the h2 response coroutine: no capacity wait for an empty chunk (found and fixed: stream "
    "stalled), the frame sent is the front min(len, cap) of the chunk and the next chunk is polled only when the current "
    "one is empty, END_STREAM is sent on every exit after body exhaustion (a computed flag must count exactly the bytes "
    "framed), HEAD/eof return before any body poll using the size as adjusted for the status; connection-specific "
    "headers are never copied, 100/102/204 suppress the body, content-length only from a Sized body; request side "
    "releases capacity per chunk. The h2 crate's own behaviour and stream independence are not decided.",
)
CLAIMS["C09"] = (
    "4/C09",
    "field effect sets over route vectors, iteration-direction and first-accept checks, sibling agreement, provenance of regex fragments",
    "Decides: route lists are iterated front to back and the first accepted candidate is returned; no order-changing "
    "operation touches any route/service vector on the build pipeline; path parameters are recorded only after the "
    "guards accepted; the app-level and scope-level routers perform the same guarded effects and require ALL guards; "
    "the URL quoter protects '/', '%' and '+' and pattern literals reach the regex only escaped (so decoding or a "
    "metacharacter cannot move a segment boundary); data containers are pushed only while descending, cut to the root on "
    "recycling, and looked up innermost-first. 404/405 selection and concrete-table semantics are not decided.",
)
CLAIMS["C10"] = (
    "4/C10",
    "per-arm call-set agreement between sibling matchers, regex-fragment provenance, must-pass-through for the boundary suffix, constants, unit-step scan check",
    "Decides: the three matchers cover all pattern types with the same matcher family per type and take the matched "
    "length from capture group 1; user pattern text reaches the regex only through escape or parse_param, the regex is "
    "anchored, grouped, and ends in '$' / '(/|$)' on every non-tail path; static matching accepts only an empty "
    "remainder or (prefix) a '/' remainder; default segment languages and flags are the documented constants; the "
    "percent-decoder scans every position, needs two hex digits and skips the protected set. That the regex matches "
    "exactly its language, captured values, and the build/match round trip are not decided.",
)

CLAIMS["C12"] = (
    "4/C12",
    "collector query + guarded-site per append site with operand-identity slices, sticky-flag discipline, callee summary of the budget call, type-level fact",
    "Every site that appends stream chunks to an accumulator in the buffering extractors (web bytes/string/JSON/form, "
    "body::to_bytes_limited, multipart Field::bytes and form readers) is found by query and must be reachable only "
    "across the passing edge of `acc.len() + chunk.len() > limit` measuring that very accumulator and chunk (with the "
    "overflow edge returning the error or setting a never-reset flag that guards the append and selects the error), or "
    "across the Ok edge of Limits::try_consume_limits(chunk.len(), _), whose body only ever subtracts with checked_sub "
    "and errors on None. Delegations hand the limit through unchanged; the extractors read the decompressed stream. A "
    "path fact holds for every chunking and for declared/undeclared lengths alike. Single-chunk decompression bombs are "
    "the statement's 'limit plus one chunk' allowance.",
)

CLAIMS["C16"] = (
    "4/C16",
    "constructor-site census + guarded-site (edge sets) + assumption-conditioned reachability + wire-integer taint with guard + per-iteration re-evaluation",
    "Decides: PathBufWrap is built only by parse_path and is what FilesService joins onto its directories; every "
    "buf.push(segment) is reached only across the rejecting tests for '.', '..', empty and dot-files, '..' pops, and on "
    "a percent-decoded path success requires the slash count to equal the raw path's count, then all components Normal; "
    "arithmetic on wire-derived range values that can underflow is guarded by a non-zero test (found and fixed: suffix "
    "range on an empty file); the file reader clamps each read to the remaining range, per read, advances offset and "
    "counter by the yielded chunk and ends at size == counter. Symlinks, races and the conditional-request table are "
    "not decided.",
)

CLAIMS["C17"] = (
    "4/C17",
    "type-level fact (Decoder impl overrides decode_eof) + guarded-site + dominance of permit acquisition + probe outcome table",
    "Decides: which Decoder impls are framing-aware and whether each has an end-of-input rule (the client codec has "
    "none: known finding, confirmed; its repair is blocked by an existing test); the connection is released only on "
    "the codec's end-of-body item or for a bodiless response or before use; the idle probe is Live only on a Pending "
    "read and Tainted on any byte, pooled HTTP/1 connections are selected only on Live and Tainted ones are closed; the "
    "semaphore permit is obtained before the idle lookup and before connecting and travels inside Acquired; idle pooled "
    "connections hold no permit (known finding: open connections exceed the limit, confirmed). Keep-alive timing is "
    "not decided.",
)
CLAIMS["C18"] = (
    "4/C18",
    "field effect sets on the map representation, must-pass-through for per-element counters, constructor census, provenance of the carried name",
    "Decides representation invariants, not the refinement to a reference multimap: value lists are created non-empty "
    "and the only mutations are push / retain(with empty entries dropped) / front removal, so they are never empty and "
    "never reordered (also for lists moved out by drain/into_iter); nothing outside the module mutates the map; every "
    "iterator element is counted exactly once, size_hint reports the counter, iterators are built with len() evaluated "
    "before consumption, len() sums list lengths; string keys go through HeaderName::from_str and lookups through "
    "try_as_name; conversion from http::HeaderMap appends under, and carries forward, the same name with fallback to "
    "the previous one.",
)

CLAIMS["C13"] = (
    "4/C13",
    "assumption-conditioned reachability for the pass-through table, must-pass-through for finish/eof, provenance of the coding label",
    "Decides ONLY structure: under each pass-through condition (already encoded, 101, 204, 206, identity) the encoder "
    "selection and head rewrite are unreachable and empty bodies bypass wrapping; the encoder stream tests eof first, "
    "consumes a finished blocking task before polling the body, returns its trailer only after finish() and with eof "
    "set (the ended body is never re-polled), and the request decoder sets eof and flushes; the Content-Encoding label, "
    "the encoder choice and the negotiated value are the same value, Vary is appended, chunking is re-enabled and the "
    "size is Stream whenever an encoder is present (no stale length); 406 / identity fall-backs of the middleware. "
    "Losslessness of the codecs and q-value arithmetic are not decided.",
)

CLAIMS["C19"] = (
    "4/C19",
    "wire-integer taint + guarded-site analysis over rustc's Assert(Overflow) terminators in built MIR; reasoned exception table; linear accounting of the unsafe header writer",
    "Decides, for the peer-facing parsing code: every overflow-checked subtraction is safe on every path by one of the "
    "code base's idioms (dominating comparison of the same operands, min-clamp, non-zero test before `- 1`, byte-range "
    "arm) or by an entry of a small reasoned table with exact keys; additions/multiplications/shifts and narrowing casts "
    "on wire-derived integers are guarded or listed; the unsafe header writer advances pointer, cursor and remaining "
    "capacity by the same sum it wrote and re-derives the pointer after reserve (found and fixed through this rule "
    "family: the zero-length range underflow). Slice bounds of the look-ahead scanners, unwraps on peer-derived options "
    "and loop termination are NOT decided.",
)

# clauses added during the build (seeded changes and triage showed they were not covered); appended to the claim text
ADDED = {
    "C01": " Added: the Content-Length decoder is reachable only on the not-chunked edge (Transfer-Encoding wins).",
    "C02": " Added: per-request codec flags are recomputed for every decoded request (not only switched on); the transfer encoder follows the declared size (Sized -> Length, cut and accounted; one terminator); FIFO request queue; flush accounting shared with C04; the stored error ends the task only with state none and an empty write buffer; upgrade hands the write buffer over.",
    "C03": " Added: FINISHED survives the drain phase; the close decision is taken before the response body is dropped; a body decoder is installed for every request with a body.",
    "C04": " Added: the stored error is returned only after the error response was flushed and every dispatched request answered; the Poll of every dispatcher timer is examined (a discarded Ready of a timer armed with a past deadline was a lost wake-up: found and fixed).",
    "C05": " Added: the producer side updates the back-pressure flag.",
    "C06": " Added: linger deadline not re-armed; draining still decodes the in-flight body; FINISHED (or a close) is marked at the end of every response body, so the keep-alive timer can be armed; timer polls are examined (shared with C04); KeepAlive::Timeout always yields a deadline.",
    "C07": " Added: the HTTP/2 request-body stream ends cleanly only on END_STREAM (no stream error becomes a clean end).",
    "C08": " Added: END_STREAM accounting of a computed flag; eof decided after the status adjustment; the reservation for the rest of a chunk is recomputed each round.",
    "C09": " Added: configure() keeps a builder's default service unless the configuration supplies one; Route builder steps hand back the receiver with its guards.",
    "C10": " Added: captured segments are looked up by name; build_resource_path appends static text and values verbatim.",
    "C11": " Added: head fields not reset by clear() are overwritten on every path to the hand-off (must-pass, both protocols).",
    "C12": " Added: the bound compared is the configured limit itself (no path replaces it by a constant); the Readlines bound covers the line being assembled; an ignored multipart part is drained before the next one.",
    "C13": " Added: a handler-set Content-Length is removed when an encoder is installed (h2 copied it: found and fixed); the request decoder is put back after every data chunk; negotiate() answers only with a coding taken from an accepted item (q > 0) or with identity when acceptable, and a specific identity item wins over `*` (found and fixed); every chunk is handed to the codec with write_all.",
    "C14": " Added: the Upgrade token is compared case-insensitively; the extended length field carries payload.len() itself.",
    "C15": " Added: a delimiter candidate at the head waits for enough bytes; the head check covers the scan's look-ahead; the scan resumes at the next byte; every header line of a part is kept (append, not insert).",
    "C16": " Added: the segment checks run on the decoded path and the checked PathBuf is what is returned; 412 takes precedence over 304; a directory listing is produced only when enabled; the range size is the file length.",
    "C17": " Added: client codec per-exchange state (response `close` wins, HEAD flag and connection type recomputed per request, payload slot rewritten, no payload decoder for HEAD); chunked wins over Content-Length for responses; STREAM flag implies a payload decoder; the keep-alive flag given to on_release is the codec's; a failed h2 exchange returns the connection to the pool only when the error is neither I/O nor GOAWAY.",
    "C19": " Added: constant-bound slices (also of `str`, also `a..len-c`) need a dominating length test; STREAM flag never set with an empty payload slot (unwrap on None); quality floats accepted only across a true comparison (NaN refused); str truncation on a char boundary.",
}

NOT_YET = "check not built yet in this round (planned per DESIGN.md section 4); not claimed until it exists"

NOT_APPLICABLE = {}


def main():
    props = [json.loads(l) for l in open(os.path.join(VERIF, "properties.jsonl"))]
    checks = []
    na = []
    for p in props:
        pid = p["id"]
        if pid in CLAIMS and os.path.exists(os.path.join(VERIF, "avlint", "props", pid.lower() + ".py")):
            ref, tech, text = CLAIMS[pid]
            checks.append(
                dict(
                    property_id=pid,
                    quick_cmd="./check %s --tier quick" % pid,
                    thorough_cmd="./check %s --tier thorough" % pid,
                    evidence_file="/verif/evidence/%s.json" % pid,
                    replay_cmd_template="./check explain {path}",
                    engine="avlint",
                    level_claimed=dict(category="other", text=text + ADDED.get(pid, ""), design_ref="DESIGN.md sections %s and 8 (rule catalogue)" % ref),
                    level_note=NOTE,
                    technique=tech,
                )
            )
        else:
            na.append(dict(property_id=pid, reason=NOT_APPLICABLE.get(pid, NOT_YET)))
    m = dict(
        version=1,
        setup_cmd="./setup.sh",
        hooks=dict(
            guard="actix_web_verif",
            enable="none: static analysis reads the unmodified tree; no hooks exist",
            baseline_off_cmd="cd /repo && cargo nextest run --workspace --no-fail-fast --tool-config-file pb:/w/lib/nextest.toml --profile pb --test-threads 8 --offline",
            source_commits=[],
            add_only=True,
        ),
        engines=[
            dict(name="factgen", path="/verif/factgen", serves_properties=[c["property_id"] for c in checks],
                 kind_free_text="rustc_private driver: dumps built MIR (resolved callees, named field projections), type tables and consts of every workspace crate as JSON lines"),
            dict(name="avlint", path="/verif/avlint", serves_properties=[c["property_id"] for c in checks],
                 kind_free_text="Python rule engine over the MIR facts: CFG, dominators, must-pass-through / never-reach, backward slicing, field-effect sets, callee summaries, byte value-set tables, assumption-conditioned reachability"),
            dict(name="controls", path="/verif/controls", serves_properties=[c["property_id"] for c in checks],
                 kind_free_text="miniature good/bad twins per engine primitive, compiled through factgen and evaluated on every check invocation"),
        ],
        checks=checks,
        notes="All checks are static: they re-extract MIR facts from /repo's current working tree (cached by content hash under /verif/.cache) and evaluate rule instances; nothing of /repo is executed. "
              "Every invocation first runs the engine controls (good/bad twins in /verif/controls through the same driver; failure = exit 2, no verdict). "
              "quick: workspace feature set. thorough: additionally re-decides C09/C10/C11/C12 on the cfg variant `web-lean` (no compress-*, no unicode: extractors read the payload directly, router uses regex-lite) "
              "re-evaluates the rules with all local/parameter/captured-variable names anonymised (rename robustness; recorded in evidence.coverage.rename_robustness), and runs the mutation self-test of the property's rules (mutants/<id>/*.diff applied to a scratch copy under mktemp, re-extracted, rules must fire; result is recorded in evidence.coverage.selftest and never changes the exit code).",
        not_applicable=na,
    )
    json.dump(m, open(os.path.join(VERIF, "MANIFEST.json"), "w"), indent=1)
    print("claimed:", [c["property_id"] for c in checks])


if __name__ == "__main__":
    main()
