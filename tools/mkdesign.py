#!/usr/bin/env python3
"""Regenerate the generated parts of DESIGN.md (between BEGIN/END markers):
 * RULES   — the rule catalogue, taken from an in-process run of every property module on the
             cached facts of /repo's current tree (rule id, number of instances, what is decided);
 * SEEDS   — the seeded-change table from seeded/MATRIX.json + seeded/*/meta.json;
 * MUTANTS — the hand-written mutants per property (file names under mutants/)."""
import glob
import importlib
import json
import os
import re
import sys

VERIF = os.path.dirname(os.path.dirname(os.path.abspath(__file__)))
sys.path.insert(0, VERIF)
from avlint import report  # noqa: E402
from avlint.core import AnchorLost, Prog  # noqa: E402

PIDS = ["C%02d" % i for i in range(1, 20)]


def rules_md():
    d = max(glob.glob(os.path.join(VERIF, ".cache", "facts-ws-*")), key=os.path.getmtime)
    prog = Prog(d)
    props = {json.loads(l)["id"]: json.loads(l) for l in open(os.path.join(VERIF, "properties.jsonl"))}
    out = []
    known = report.load_known()
    for pid in PIDS:
        mod = importlib.import_module("avlint.props.%s" % pid.lower())
        ck = report.Check(pid, prog, "quick")
        try:
            mod.run(ck, prog, "quick", None)
        except AnchorLost as e:
            ck.ob("anchor", "anchor-lost", False, detail=str(e))
        title = props[pid].get("title") or props[pid].get("name") or ""
        out.append("#### %s — %s\n" % (pid, title))
        out.append("%d obligations on today's tree. Technique: %s\n" % (len(ck.obs), mod.RULES.strip()))
        per = {}
        for o in ck.obs:
            per.setdefault(o["rule"], []).append(o)
        out.append("| rule | instances | what one instance decides (first instance shown) |")
        out.append("|---|---|---|")
        for r, os_ in per.items():
            anchors = [o for o in os_ if "|anchor-lost|" in o["key"]]
            real = [o for o in os_ if "|anchor-lost|" not in o["key"]]
            if real:
                o = real[0]
                det = re.sub(r"\s+", " ", o["detail"] or o["key"]).replace("|", "\\|")
                st = "" if all(x["ok"] for x in real) else " **(fails today: known finding)**"
                out.append("| `%s` | %d | %s%s |" % (r, len(real), det[:260], st))
            for a in anchors:
                det = re.sub(r"\s+", " ", a["detail"]).replace("|", "\\|")
                out.append("| `%s` (floor) | 1 | fail-closed anchor: %s |" % (r, det[:200]))
        kf = [k for k in known if k["property"] == pid]
        if kf:
            out.append("")
            for k in kf:
                out.append("* %s `%s`%s" % (k["status"], k["key"], (" (" + k["commit"] + ")") if k.get("commit") else ""))
        out.append("")
    return "\n".join(out)


def seeds_md():
    mp = os.path.join(VERIF, "seeded", "MATRIX.json")
    matrix = json.load(open(mp)) if os.path.exists(mp) else {}
    out = ["| seed | what was changed | needs, to manifest | confirmed (demo passes / fails with patch / suite passes) | first run | now: rules that fire |", "|---|---|---|---|---|---|"]
    for sd in sorted(os.listdir(os.path.join(VERIF, "seeded"))):
        mj = os.path.join(VERIF, "seeded", sd, "meta.json")
        if not os.path.exists(mj):
            continue
        m = json.load(open(mj))
        fired = matrix.get(sd, {}).get("fired", {})
        fs = "; ".join("%s: %s" % (p, ", ".join("`%s`" % k for k in v[:2]) + (" …" if len(v) > 2 else "")) for p, v in fired.items()) or "**missed**"
        out.append("| %s | %s | %s | %s | %s | %s |" % (sd, m["change"].replace("|", "\\|"), (m["needs"][:230] + ("…" if len(m["needs"]) > 230 else "")).replace("|", "\\|"), m["confirmed"], m["first_run"], fs.replace("|", "\\|")))
    return "\n".join(out)


def mutants_md():
    out = ["| property | hand-written mutants (mutants/<id>/*.diff) | reverts of repairs | seeds |", "|---|---|---|---|"]
    for pid in PIDS:
        d = os.path.join(VERIF, "mutants", pid)
        fs = sorted(f[:-5] for f in os.listdir(d) if f.endswith(".diff")) if os.path.isdir(d) else []
        hand = [f for f in fs if not f.startswith(("seed-", "revert-"))]
        out.append("| %s | %s | %s | %s |" % (pid, ", ".join(hand), ", ".join(f for f in fs if f.startswith("revert-")), ", ".join(f for f in fs if f.startswith("seed-"))))
    return "\n".join(out)


def main():
    p = os.path.join(VERIF, "DESIGN.md")
    s = open(p).read()
    for name, fn in (("RULES", rules_md), ("SEEDS", seeds_md), ("MUTANTS", mutants_md)):
        b, e = "<!-- BEGIN GENERATED %s -->" % name, "<!-- END GENERATED %s -->" % name
        if b in s and e in s:
            s = s[: s.index(b) + len(b)] + "\n" + fn() + "\n" + s[s.index(e) :]
    open(p, "w").write(s)


if __name__ == "__main__":
    main()
