#!/bin/bash
# tools/confirm_seed.sh <seed-dir-name>   e.g. C04-1
# Confirms a seeded change in a scratch worktree: (a) demo passes without the patch, (b) demo fails with it,
# (c) the touched crates' existing tests pass with the patch. Writes seeded/<id>/confirm.log and prints a verdict line.
set -u
S=$1
D=/verif/seeded/$S
WT=/tmp/confirm/wt
export CARGO_TARGET_DIR=/tmp/confirm/target
export CARGO_NET_OFFLINE=true
mkdir -p /tmp/confirm
LOG=$D/confirm.log
: > $LOG
base=""
for c in $(git -C /repo log --format=%h); do
  git -C /repo worktree remove --force $WT >/dev/null 2>&1
  git -C /repo worktree add --detach $WT $c -q 2>>$LOG || continue
  if git -C $WT apply --check $D/patch.diff 2>/dev/null && git -C $WT apply --check $D/demo.diff 2>/dev/null; then base=$c; break; fi
done
if [ -z "$base" ]; then echo "$S: NO-BASE (patch does not apply to any commit)" | tee -a $LOG; exit 1; fi
echo "base commit: $base" >> $LOG
crates=$(grep -h '^+++ b/' $D/patch.diff | sed 's#+++ b/##; s#/.*##' | sort -u | tr '\n' ' ')
demo_files=$(grep -h '^+++ b/' $D/demo.diff | sed 's#+++ b/##')
demo_crate=$(echo "$demo_files" | head -1 | sed 's#/.*##')
demo_test=$(echo "$demo_files" | grep '/tests/' | head -1 | sed 's#.*/tests/##; s#\.rs$##')
echo "crates: $crates demo: $demo_crate/$demo_test" >> $LOG
cd $WT
git apply $D/demo.diff
feat=""
[ "$demo_crate" = "actix-http" ] && feat="--features http2,ws,compress-gzip,compress-brotli,compress-zstd"
run_demo() { if [ -n "$demo_test" ]; then timeout 1500 cargo test --offline -j 6 -p $demo_crate $feat --test $demo_test 2>&1 | tail -15; else timeout 1500 cargo test --offline -j 6 -p $demo_crate $feat --lib 2>&1 | tail -15; fi; }
echo "== demo without patch" >> $LOG; run_demo >> $LOG 2>&1; a=${PIPESTATUS[0]}
grep -q "test result: ok" $LOG && A=pass || A=fail
git apply $D/patch.diff
echo "== demo with patch" >> $LOG; out=$(run_demo); echo "$out" >> $LOG
echo "$out" | grep -q "test result: FAILED\|panicked\|error: test failed" && B=fail || B=pass
# existing tests with patch (demo removed)
git apply -R $D/demo.diff
C=pass
for c in $crates; do
  extra=""
  [ "$c" = "actix-web" ] && extra="-- --skip test_slow_request"
  echo "== existing tests -p $c" >> $LOG
  out=$(timeout 3000 cargo test --offline -j 6 -p $c $extra 2>&1 | grep -E "^test result|test result: FAILED|error: test failed|could not compile" | tail -20); echo "$out" >> $LOG
  echo "$out" | grep -q "test result: FAILED\|error: test failed\|could not compile" && C=fail
done
cd /; git -C /repo worktree remove --force $WT >/dev/null 2>&1
echo "$S: base=$base demo-without-patch=$A demo-with-patch=$B existing-tests-with-patch=$C" | tee -a $LOG
