#!/usr/bin/env python3
"""Write seeded/<id>/meta.json from notes.md (the seeding agent's own description), confirm.log
(my own confirmation in a scratch worktree, tools/confirm_seed.sh) and seeded/MATRIX.json (which
rules fire on it, tools/seedmatrix.py). A seed whose confirmation did not give
pass / fail / pass is reported and gets no meta.json."""
import json
import os
import re
import sys

VERIF = os.path.dirname(os.path.dirname(os.path.abspath(__file__)))
SD = os.path.join(VERIF, "seeded")
# outcome of the very first run of the checks against each seed, before any strengthening
FIRST_MISSED = {"C13-6", "C06-8", "C07-6", "C15-8", "C16-7", "C19-7", "C19-8", "C12-7", "C12-8", "C09-7", "C17-6", "C17-7", "C08-6", "C08-7", "C13-5", "C16-5", "C16-6", "C15-5", "C15-6", "C10-6", "C10-7", "C04-6", "C05-6", "C14-6", "C02-7", "C02-8", "C17-5", "C19-5", "C06-6", "C13-3", "C13-4", "C17-4", "C19-3", "C15-4", "C16-3", "C16-4", "C14-3", "C14-4", "C03-4", "C03-5", "C02-5", "C02-6", "C10-5", "C02-3", "C08-4", "C10-4", "C04-3", "C09-3", "C11-4", "C12-4", "C02-2", "C03-1", "C05-1", "C06-1", "C06-2", "C08-1", "C08-2", "C10-1", "C11-2", "C15-1", "C18-1", "C19-1", "C19-2"}
STRENGTHENED = {
    "C13-6": "new rule C13-a.whole-chunk-into-codec",
    "C06-8": "new rule C06.keepalive-timeout-yields-deadline",
    "C07-6": "new rule C07-c.h2-end-only-at-stream-end",
    "C15-8": "new rule C15-g.part-headers-all-kept",
    "C16-7": "new rule C16-b.listing-only-when-enabled",
    "C19-7": "new rule C19-e.float-accepted-across-true-comparison",
    "C19-8": "new rule C19-e.str-truncated-on-char-boundary",
    "C12-7": "new rule C12-c.readlines-bound-covers-line",
    "C12-8": "new rule C12-c.ignored-part-is-drained",
    "C09-7": "new rule C09-b.builder-keeps-guards",
    "C17-6": "new rule C17-b.release-decision-from-codec",
    "C17-7": "new rule C17-b.h2-error-release-closes",
    "C02-2": "new rule C02-e.upgrade-hands-over-write-buf (+ write-buf-effect)",
    "C03-1": "new rule C03-c.finished-kept-while-draining",
    "C05-1": "new rule C05-c.producer-updates-backpressure (C07 anchor fires too)",
    "C06-1": "new rule C06.linger-deadline-not-rearmed",
    "C06-2": "new rule C06.draining-inflight-still-decodes",
    "C08-1": "only an anchor-lost fired at first; rule C08-c.end-flag-accounting now decides it",
    "C08-2": "new rule C08-c.eof-after-status-adjustment",
    "C10-1": "C10-b.fragment-provenance tightened (is_regex_part requires the pattern half of parse_param's result)",
    "C11-2": "new must-pass rule C11-d.url-update",
    "C15-1": "new rule C15-f.partial-delimiter-waits",
    "C18-1": "C18 no-reorder rule extended to value lists moved out of the map (SmallVec)",
    "C19-1": "new rule C19-c.slice-length-guarded",
    "C19-2": "new rule C19-c.slice-length-guarded",
    "C02-3": "new rule C02-a.flag-recomputed",
    "C02-4": "was caught by C04 only (C04-a.pending-advances); C02 now shares the flush-accounting rules (C02-f.*)",
    "C08-4": "new rule C08-b.remainder-reservation-fresh",
    "C10-4": "new rule C10-a.segment-by-name",
    "C04-3": "new rule C04-c.error-exit-after-flush",
    "C04-4": "caught by fail-closed anchors only (the Ready edge of poll_linger and its self-wake disappeared)",
    "C09-3": "new rule C09-f.configure-keeps-default",
    "C11-4": "C11-e.head-field strengthened from 'some write exists' to must-pass-through on every path to the hand-off",
    "C08-6": "new rules C08-f.pong-ends-in-flight / ping-starts-in-flight",
    "C08-7": "new rule C08-f.window-sizes-not-swapped",
    "C13-5": "new rule C13-c.middleware-uses-negotiated-coding",
    "C07-5": "was caught by C04 only (C04-c.eof-fails-body-first); the rule is now shared as C07-c.eof-fails-body-first",
    "C11-6": "was caught by C09 only (C09-e data-stack rules); the rules are now shared as C11-f.*",
    "C16-5": "new rule C16-b.compressed-lookup-stays-inside",
    "C16-6": "new rules C16-c.range-size-unaltered / range-size-is-file-length",
    "C15-5": "new rule C15-g.field-released-only-when-ended",
    "C15-6": "new rule C15-g.delimiter-remainder-exact",
    "C10-6": "new rule C10-d.regex-set-keeps-every-pattern",
    "C10-7": "new rules C10-d.reindex-covers-skip / reindex-covers-segments",
    "C09-5": "was caught by C11 only (C11-d.url-update); the rule is now shared as C09-d.url-update",
    "C04-5": "was caught by C07 only (C07-d.register-impl); the rule is now shared as C04-b.register-impl",
    "C04-6": "new rule C04-b/C06.arming-always-polls",
    "C05-6": "new rule C05-d.configured-bound-stored-as-given",
    "C14-6": "new rules C14-f.suffix-uses-rotated-mask / prefix-uses-given-mask",
    "C02-7": "new rule C02-g.sized-stream-declares-size",
    "C02-8": "new rule C02-g.adapter-pending-has-waker",
    "C17-5": "new rule C17-a.connection-read-delegates",
    "C19-5": "C19-c extended to single-element indexing (BoundsCheck asserts) with a reasoned exception table",
    "C06-6": "new rule C06.signal-handed-to-every-connection",
    "C13-3": "new rules C13-e.* (negotiate: chosen-from-accepted-item, zero-quality-filtered, identity-needs-acceptability)",
    "C13-4": "new rule C13-d.decoder-restored",
    "C17-4": "new rule C17-a.chunked-wins-over-length (and C01-b.decoder-from-decision now requires the not-chunked edge)",
    "C19-3": "C19-c.slice-length-guarded extended to `str` indexing and to ranges `a..len-c`; entity.rs added to the analysed files",
    "C19-4": "was caught by a fail-closed anchor of C17 only; new shared rule C17-d/C19-d.stream-flag-has-payload",
    "C15-4": "new rule C15-f.scan-resumes-at-next-byte",
    "C16-3": "new rules C16-b.checks-on-decoded and C16-b.returned-is-built",
    "C16-4": "new rule C16-c.precondition-before-not-modified",
    "C14-3": "new rule C14-e.upgrade-token-case-insensitive",
    "C14-4": "new rule C14-c.writer-length-is-payload-length",
    "C06-4": "was caught by C03 only (sibling agreement of the two send-body arms); C06 now has C06.finished-marked-at-end-of-body",
    "C03-4": "new rule C03-c.close-decision-before-state-drop",
    "C03-5": "new rule C03-c.body-decoder-installed",
    "C02-5": "new rule C02-e/C04-c.error-exit-after-responses",
    "C02-6": "new rule C02-c.encoder-follows-size",
    "C10-5": "new rule C10-d.build-appends-verbatim",
    "C12-4": "C12-a.append-guarded now requires the compared bound to be the configured limit (no path may replace it by a constant)",
}


def section(text, *names):
    for n in names:
        m = re.search(r"^##+\s*[^\n]*%s[^\n]*\n(.*?)(?=^##+\s|\Z)" % n, text, re.S | re.M | re.I)
        if m:
            return re.sub(r"\s+", " ", m.group(1)).strip()
    return ""


def main():
    matrix = {}
    mp = os.path.join(SD, "MATRIX.json")
    if os.path.exists(mp):
        matrix = json.load(open(mp))
    bad = []
    for sd in sorted(os.listdir(SD)):
        d = os.path.join(SD, sd)
        if not os.path.isdir(d):
            continue
        notes = open(os.path.join(d, "notes.md")).read()
        title = notes.splitlines()[0].lstrip("# ").strip()
        title = re.sub(r"^C\d\d\s*(seed|—|-)?\s*\d?\s*[—:-]*\s*", "", title).strip() or title
        cl = os.path.join(d, "confirm.log")
        verdict = ""
        if os.path.exists(cl):
            lines = [l for l in open(cl).read().splitlines() if l.startswith(sd + ":")]
            verdict = lines[-1] if lines else ""
        m = re.search(r"base=(\w+) demo-without-patch=(\w+) demo-with-patch=(\w+) existing-tests-with-patch=(\w+)", verdict)
        if not m or (m.group(2), m.group(3), m.group(4)) != ("pass", "fail", "pass"):
            bad.append((sd, verdict or "not confirmed yet"))
            continue
        files = sorted({l[6:].strip() for l in open(os.path.join(d, "patch.diff")) if l.startswith("+++ b/")})
        fired = matrix.get(sd, {}).get("fired", {})
        meta = dict(
            seed=sd,
            property=sd.split("-")[0],
            change=title,
            files=files,
            clause_broken=section(notes, "clause", "property")[:700],
            needs=section(notes, "needed", "manifest")[:900],
            produced_by="independent sub-agent given only the property text and a scratch worktree (no access to /verif)",
            confirmed="%s / %s / %s (base %s)" % (m.group(2), m.group(3), m.group(4), m.group(1)),
            what_i_ran=[
                "tools/confirm_seed.sh %s  (scratch worktree /tmp/confirm/wt at commit %s; removed afterwards)" % (sd, m.group(1)),
                "demo.diff applied alone: demonstration passes",
                "demo.diff + patch.diff: demonstration fails",
                "patch.diff alone: cargo test --offline -p <each touched crate>: all existing tests pass",
                "tools/seedmatrix.py %s  (all 19 checks on a scratch copy with the patch applied)" % sd,
            ],
            first_run="missed" if sd in FIRST_MISSED else "detected",
            strengthened=STRENGTHENED.get(sd, ""),
            caught_by_now=fired,
            ported_patch=("mutants/%s/seed-%s.diff" % (sd.split("-")[0], sd)) if os.path.exists(os.path.join(VERIF, "mutants", sd.split("-")[0], "seed-%s.diff" % sd)) else None,
        )
        json.dump(meta, open(os.path.join(d, "meta.json"), "w"), indent=1, ensure_ascii=False)
    for b in bad:
        print("NO META:", b)


if __name__ == "__main__":
    main()
