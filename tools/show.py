#!/usr/bin/env python3
"""tools/show.py <facts-dir|-> <body-regex> [--raw]  : readable dump of a body"""
import sys, os, json
sys.path.insert(0, os.path.dirname(os.path.dirname(os.path.abspath(__file__))))
from avlint.core import *
d = sys.argv[1]
if d == "-":
    import glob
    c = sorted(glob.glob("/verif/.cache/facts-ws-*"))
    d = c[-1]
p = Prog(d)
for b in p.find(sys.argv[2]):
    print("====", b.path, b.file, b.lo, "blocks", b.nb)
    for i, l in enumerate(b.locals):
        if l.get("n") or l["k"] in ("arg", "ret"):
            print("   _%d %s %s : %s" % (i, l["k"], l.get("n"), l["ty"]))
    for bb in sorted(b.live):
        print(" bb%d (ln %d)" % (bb, b.line(bb)))
        for s in b.stmts(bb):
            if s["k"] == "=":
                print("     %s = %s" % (s["p"], short(b.rv_expr(s["rv"], 3), 5)))
            else:
                print("     ", s)
        t = b.term(bb)
        if t["k"] == "call":
            print("     -> %s = call %s(%s) -> bb%s" % (t.get("dest"), cname(t), ", ".join(short(b.op_expr(a, 3), 4) for a in t["args"]), t.get("t")))
        elif t["k"] == "switch":
            br = b.branch(bb)
            print("     -> switch %s : %s" % (short(br[0], 5), br[1]))
        else:
            print("     -> %s %s" % (t["k"], t.get("t", "")))
