#!/usr/bin/env python3
"""tools/mkmut.py <Cxx> <name> <file-relative-to-repo> <old> <new> [--count N]
writes /verif/mutants/<Cxx>/<name>.diff replacing the (unique, unless --count) occurrence of old by new"""
import difflib, os, sys
a = sys.argv[1:]
pid, name, rel, old, new = a[:5]
occ = None
if "--nth" in a:
    occ = int(a[a.index("--nth") + 1])
src = open(os.path.join("/repo", rel)).read()
n = src.count(old)
if n == 0 or (n != 1 and occ is None):
    sys.exit("pattern occurs %d times in %s" % (n, rel))
if occ is None:
    dst = src.replace(old, new)
else:
    parts = src.split(old)
    dst = old.join(parts[: occ + 1]) + new + old.join(parts[occ + 1 :])
d = "".join(difflib.unified_diff(src.splitlines(True), dst.splitlines(True), "a/" + rel, "b/" + rel))
os.makedirs("/verif/mutants/%s" % pid, exist_ok=True)
open("/verif/mutants/%s/%s.diff" % (pid, name), "w").write(d)
print(d)
